"""QSBR rules (qsbr.hpp / qsbr.cpp): structural safety and exactly-once conditions of deferred reclamation."""
import re

from ..engine import forward, dominators, reachable_from, elem_dominates
from ..facts import sh, fileline
from ..report import RuleResult
from ..forwarders import is_assert_elem
from .. import atomics, wsum

QS = 'unodb::qsbr_state'
Q = 'unodb::qsbr'
PT = 'unodb::qsbr_per_thread'
DR = 'unodb::detail::deferred_requests'
DREQ = 'unodb::detail::deallocation_request'
STATE_HELPER = re.compile(r'^unodb::qsbr_state::(inc_|dec_)')


def fn(cfg, cls, short):
    return [f for f in cfg.functions if f.cls == cls and f.short == short and f.blocks]


def anon(cfg, short):
    return [f for f in cfg.functions if f.short == short and f.blocks and '(anonymous namespace)' in f.name and f.basefile == 'qsbr.cpp']


def lval_sig(f, o, depth=0):
    e = f.strip_casts(o)
    if not isinstance(e, dict) or depth > 8:
        return None
    k = e.get('k')
    if k == 'ref':
        return 'v%d' % e['did']
    if k == 'this':
        return 'this'
    if k == 'member':
        b = lval_sig(f, e['base'], depth + 1)
        return None if b is None else b + '.' + e.get('name', '?')
    if k == 'unop' and e.get('op') == '*':
        return lval_sig(f, e['sub'], depth + 1)
    if f.is_std_move(e):
        return lval_sig(f, e['args'][0], depth + 1)
    if k == 'call' and e.get('ck') == 'ctor' and (e.get('copy') or e.get('move')) and len(e.get('args', [])) == 1:
        return lval_sig(f, e['args'][0], depth + 1)
    if k == 'call' and e.get('ck') == 'member' and e.get('name') == 'instance' and not e.get('args'):
        return 'instance()'
    if k == 'call' and e.get('ck') == 'free' and e.get('name') == 'instance':
        return 'instance()'
    if k == 'call' and e.get('name') in ('operator->', 'operator*', 'get') and (e.get('obj') is not None or e.get('args')):
        return lval_sig(f, e.get('obj') if e.get('obj') is not None else e['args'][0], depth + 1)
    return None


def calls(f, pred, skip_assert=True):
    return [(b, i, e) for b, i, e in f.elements() if e.get('k') == 'call' and (not skip_assert or not is_assert_elem(e)) and pred(e)]


def cond_of(f, blk):
    """(resolved condition element, negated) of a two-way block"""
    c = blk.get('cond')
    if c is None or len(blk['succs']) != 2:
        return None, False
    o, neg = f.strip_test(c)
    return f.resolve(o), neg


def bool_var_test(f, blk):
    """if the block branches on a local bool variable: (did, negated)"""
    e, neg = cond_of(f, blk)
    if isinstance(e, dict) and e.get('k') == 'ref' and e.get('vk') in ('local', 'param') and (e.get('t') or '').replace('const ', '') == 'bool':
        return e['did'], neg
    return None, False


class BoolFlow:
    """path-sensitive forward analysis keeping one state per valuation of the tracked bool variables.
    state = (frozenset((did, value)), user payload)"""

    def __init__(self, f, transfer, init_payload, join_payload, assigned_bools=True):
        self.f = f
        self.user_transfer = transfer
        self.init_payload = init_payload
        self.join_payload = join_payload

    def conj_map(self):
        f = self.f
        m = {}
        for b, i, e in f.elements():
            if e.get('k') == 'decl':
                for v in e['vars']:
                    if (v['t'] or '').replace('const ', '') == 'bool' and 'init' in v:
                        parts = []

                        def split(o):
                            x = f.strip_casts(o)
                            if isinstance(x, dict) and x.get('k') == 'call' and x.get('name') == '__builtin_expect':
                                return split(x['args'][0])
                            if isinstance(x, dict) and x.get('k') == 'binop' and x.get('op') == '&&':
                                split(x['l'])
                                split(x['r'])
                            elif isinstance(x, dict) and x.get('k') == 'ref' and (x.get('t') or '').replace('const ', '') == 'bool':
                                parts.append(x['did'])
                        split(v['init'])
                        if parts:
                            m[v['did']] = parts
        return m

    def run(self):
        f = self.f
        conj = self.conj_map()

        def close(vals):
            # v = a && ... : a false => v false ; v true => a true
            changed = True
            while changed:
                changed = False
                for v, parts in conj.items():
                    if any(vals.get(p) is False for p in parts) and vals.get(v) is not False and v not in vals:
                        vals[v] = False
                        changed = True
                    if vals.get(v) is True:
                        for p in parts:
                            if p not in vals:
                                vals[p] = True
                                changed = True
            return vals

        def tr(S, blk):
            out = {}
            for vals, pay in S:
                vals = dict(vals)
                for e in blk['elems']:
                    k = e.get('k')
                    if k == 'decl':
                        for v in e['vars']:
                            vals.pop(v['did'], None)
                            if (v['t'] or '').replace('const ', '') == 'bool' and 'init' in v:
                                x = f.strip_casts(v['init'])
                                if isinstance(x, dict) and x.get('k') == 'bool':
                                    vals[v['did']] = bool(x['v'])
                            if v['did'] in conj:
                                close(vals)
                    elif k == 'binop' and e.get('op') == '=':
                        r = f.ref_of(e['l'])
                        if r:
                            vals.pop(r[0], None)
                            x = f.strip_casts(e['r'])
                            if isinstance(x, dict) and x.get('k') == 'bool':
                                vals[r[0]] = bool(x['v'])
                    pay = self.user_transfer(pay, e, vals)
                key = frozenset(vals.items())
                out[key] = self.join_payload(out[key], pay) if key in out else pay
            return frozenset(out.items())

        def rf(S, blk, i):
            did, neg = bool_var_test(f, blk)
            # also: conjunctions are split by clang into separate blocks, so single-variable tests suffice
            out = {}
            for vals, pay in S:
                vals = dict(vals)
                if did is not None:
                    val = (i == 0) != neg
                    if did in vals and vals[did] != val:
                        continue
                    vals[did] = val
                    close(vals)
                key = frozenset(vals.items())
                out[key] = self.join_payload(out[key], pay) if key in out else pay
            if not out:
                return None
            return frozenset(out.items())

        def join(a, b):
            d = dict(a)
            for k, v in b:
                d[k] = self.join_payload(d[k], v) if k in d else v
            return frozenset(d.items())
        init = frozenset([(frozenset(), self.init_payload)])
        return forward(f, init, tr, rf, join, key=lambda s: s)


def control_conditions(f, target_block):
    """branch outcomes (cond element, value) that dominate-and-guard target_block: block C dominates target, target reachable from exactly one successor"""
    dom = dominators(f)
    out = []
    for b in dom.get(target_block, ()):
        if b == target_block:
            continue
        blk = f.blocks[b]
        ss = f.succs(b)
        if len(ss) != 2 or ss[0] is None or ss[1] is None:
            continue
        r0 = target_block in _reach_avoiding(f, ss[0], b)
        r1 = target_block in _reach_avoiding(f, ss[1], b)
        # exclude loop-carried reachability: if both successors reach the target, the branch does not guard it
        if r0 != r1:
            e, neg = cond_of(f, blk)
            if e is not None:
                out.append((e, (r0) != neg, b))
    return out


def _reach_avoiding(f, start, avoid):
    seen = {start}
    work = [start]
    while work:
        x = work.pop()
        for y in f.succs(x):
            if y is not None and y != avoid and y not in seen:
                seen.add(y)
                work.append(y)
    return seen


def mentions_single_thread(f, e, depth=0):
    """does the condition test a single_thread_mode flag (variable/parameter named so, or a direct call)?"""
    hit = []

    def v(x):
        if x.get('k') == 'ref' and 'single_thread_mode' in (x.get('name') or ''):
            hit.append(1)
        if x.get('k') == 'call' and x.get('name') == 'single_thread_mode':
            hit.append(1)
    f.walk(e, v)
    return bool(hit)


# =====================================================================================================================
def q_free_paths(cfg):
    """Q-1 / Q-2: what may reach the free sink, and when"""
    res = RuleResult('Q-1/2', 'a request reaches qsbr::deallocate only through ~deferred_requests (or directly in single-thread mode); a deferred_requests is built only from the previous-interval list, from the current-interval list under single-thread mode, or from an orphan node in free_orphan_list; the current orphan list is freed only under single-thread mode')
    # Q-1 who may call
    cs = cfg.callers_of(lambda s: s.startswith(DREQ + '::deallocate('))
    res.count('callers of deallocation_request::deallocate', len(cs))
    for f, e in cs:
        ok = f.cls == DR and f.d.get('dtor')
        res.ob(ok, {'rule': 'Q-1', 'caller': sh(f.name), 'site': fileline(e.get('loc')), 'verdict': 'discharged' if ok else 'VIOLATION'})
        if not ok:
            res.find(f, e.get('loc'), 'deallocation_request::deallocate is called outside ~deferred_requests: a request could be executed without having aged through the interval lists', key='Q-1:deallocate-caller', config=cfg.name)
    cs = cfg.callers_of(lambda s: s.startswith(Q + '::deallocate('))
    res.count('callers of qsbr::deallocate', len(cs))
    for f, e in cs:
        if f.cls == DREQ and f.short == 'deallocate':
            res.ob(True)
            continue
        ok = False
        if f.cls == PT and f.short == 'on_next_epoch_deallocate':
            blk = [b for b, i, x in f.elements() if x is e]
            if blk:
                conds = control_conditions(f, blk[0])
                ok = any(mentions_single_thread(f, c) and val for c, val, _ in conds)
        res.ob(ok, {'rule': 'Q-1', 'caller': sh(f.name), 'site': fileline(e.get('loc')), 'fact': 'immediate deallocation is control-dependent on single-thread mode', 'verdict': 'discharged' if ok else 'VIOLATION'})
        if not ok:
            res.find(f, e.get('loc'), 'qsbr::deallocate is called directly on a path that is not control-dependent on single-thread mode being true: memory is freed at once although another registered thread may still reference it', key='Q-1:immediate-free', config=cfg.name)
    res.floor('callers of deallocation_request::deallocate', 1)
    res.floor('callers of qsbr::deallocate', 2)
    # Q-2 what a deferred_requests is built from
    n = 0
    for f in cfg.functions:
        if not f.blocks or f.basefile not in ('qsbr.hpp', 'qsbr.cpp'):
            continue
        for b, i, e in f.elements():
            if e.get('k') == 'call' and e.get('ck') == 'ctor' and e.get('cls') == DR and e.get('args') and not (e.get('copy') or e.get('move')):
                n += 1
                src = lval_sig(f, e['args'][0])
                conds = control_conditions(f, b)
                under_stm = any(mentions_single_thread(f, c) and val for c, val, _ in conds)
                ok = False
                what = src
                if src == 'this.previous_interval_dealloc_requests':
                    ok = True
                elif src == 'this.current_interval_dealloc_requests':
                    ok = under_stm
                    what += ' (current interval)'
                elif src is not None and src.endswith('.requests') and f.short == 'free_orphan_list':
                    ok = True
                res.ob(ok, {'rule': 'Q-2', 'function': sh(f.name), 'site': fileline(e.get('loc')), 'freed_list': what, 'under_single_thread_mode': under_stm, 'verdict': 'discharged' if ok else 'VIOLATION'})
                if not ok:
                    res.find(f, e.get('loc'), 'requests from `%s` are handed to the free sink here%s: only the previous-interval list may be freed on an epoch change; the current-interval list only in single-thread mode' % (what, '' if under_stm else ' on a path not control-dependent on single-thread mode'), key='Q-2:freed:%s' % src, config=cfg.name)
    res.count('deferred_requests construction sites', n)
    res.floor('deferred_requests construction sites', 3)
    # free_orphan_list call sites in the epoch changer
    for f in fn(cfg, Q, 'epoch_change_barrier_and_handle_orphans'):
        taken = {}
        for b, i, e in f.elements():
            if e.get('k') == 'decl':
                for v in e['vars']:
                    if 'init' in v:
                        x = f.strip_casts(v['init'])
                        if isinstance(x, dict) and x.get('k') == 'call' and x.get('name') == 'take_orphan_list' and x.get('args'):
                            taken[v['did']] = lval_sig(f, x['args'][0])
        for b, i, e in calls(f, lambda e: e.get('name') == 'free_orphan_list'):
            r = f.ref_of(e['args'][0]) if e.get('args') else None
            src = taken.get(r[0]) if r else None
            conds = control_conditions(f, b)
            under_stm = any(mentions_single_thread(f, c) and val for c, val, _ in conds)
            res.count('free_orphan_list call sites')
            ok = (src or '').endswith('orphaned_previous_interval_dealloc_requests') or ((src or '').endswith('orphaned_current_interval_dealloc_requests') and under_stm)
            res.ob(ok, {'rule': 'Q-2', 'function': sh(f.name), 'site': fileline(e.get('loc')), 'list': src, 'under_single_thread_mode': under_stm, 'verdict': 'discharged' if ok else 'VIOLATION'})
            if not ok:
                res.find(f, e.get('loc'), 'the orphan list taken from `%s` is freed here: orphans of the current interval must age one more epoch unless QSBR is in single-thread mode' % src, key='Q-2:orphans:%s' % (src or '?').split('.')[-1], config=cfg.name)
    res.floor('free_orphan_list call sites', 2)
    return res


# =====================================================================================================================
def q_rotation(cfg, parts=('3', '4')):
    """Q-3 aging order inside execute_previous_requests, Q-4 rotation only on an observed epoch change"""
    res = RuleResult('Q-3/4', 'in execute_previous_requests the previous list is moved out before it receives the current list and no non-empty list is overwritten; every call of execute_previous_requests is control-dependent on having observed a new epoch')
    P, C = 'this.previous_interval_dealloc_requests', 'this.current_interval_dealloc_requests'
    for f in (fn(cfg, PT, 'execute_previous_requests') if '3' in parts else []):
        res.count('rotation functions')
        res.functions.add(f.sig)
        newp = None
        for p in f.params:
            if 'std::vector<' in p['t'] and 'deallocation_request' in p['t']:
                newp = 'v%d' % p['did']
        problems = []
        # typestate: 'own' (holds requests) / 'moved' / 'empty'
        site_obs = {}

        def transfer(st, blk):
            st = dict(st)
            for e in blk['elems']:
                if is_assert_elem(e) or e.get('k') != 'call':
                    continue
                # move into a free sink
                if e.get('ck') == 'ctor' and e.get('cls') == DR and e.get('args') and f.is_std_move(f.strip_casts(e['args'][0])):
                    s = lval_sig(f, e['args'][0])
                    if s in st:
                        st[s] = 'moved'
                # move-assignment between lists
                if e.get('ck') == 'op' and e.get('op') == '=' and 'std::vector<' in (e.get('callee') or '') and len(e.get('args', [])) == 2:
                    dst = lval_sig(f, e['args'][0])
                    srcm = f.is_std_move(f.strip_casts(e['args'][1]))
                    src = lval_sig(f, e['args'][1])
                    if dst in st:
                        site_obs.setdefault(('assign', e.get('loc'), dst, src), set()).add(st[dst])
                        if src in st and srcm:
                            st[dst] = st[src]
                            st[src] = 'moved'
                        else:
                            st[dst] = 'own'
                if e.get('ck') == 'member' and e.get('name') == 'clear' and 'std::vector<' in (e.get('cls') or ''):
                    dst = lval_sig(f, e['obj'])
                    if dst in st:
                        site_obs.setdefault(('clear', e.get('loc'), dst, None), set()).add(st[dst])
                        st[dst] = 'empty'
            return tuple(sorted(st.items()))
        init = {P: 'own', C: 'own'}
        if newp:
            init[newp] = 'own'
        S0 = frozenset([tuple(sorted(init.items()))])
        inst = forward(f, S0, lambda S, blk: frozenset(transfer(s, blk) for s in S), None, lambda a, b: a | b, key=lambda s: s)
        for (kind, loc, dst, src), states in sorted(site_obs.items(), key=str):
            ok = 'own' not in states
            res.ob(ok, {'rule': 'Q-3', 'site': fileline(loc), 'event': '%s %s' % (kind, dst.split('.')[-1]) + (' <- ' + src.split('.')[-1] if src else ''), 'state_before': sorted(states), 'verdict': 'discharged' if ok else 'VIOLATION'})
            if not ok:
                res.find(f, loc, 'list `%s` is overwritten (%s) while it may still hold requests that were not moved to the free sink or to the older list: those requests are lost, or - if this is the previous list receiving the current one first - freed one epoch early' % (dst.split('.')[-1], kind), key='Q-3:overwrite:%s' % dst.split('.')[-1], config=cfg.name)
        # exit: the parameter list was consumed into the current list, previous moved out on every path
        ex = inst.get(f.exit, frozenset())
        for s in ex:
            d = dict(s)
            okx = d.get(C) in ('own',) or newp is None
            if newp:
                okp = d.get(newp) == 'moved'
                res.ob(okp, {'rule': 'Q-3', 'fact': 'new requests consumed into the current list', 'verdict': 'discharged' if okp else 'VIOLATION'})
                if not okp:
                    res.find(f, f.loc, 'the new current requests passed in are not moved into the current-interval list on some path: the request that triggered the rotation is lost', key='Q-3:new-not-consumed', config=cfg.name)
    if '3' in parts:
        res.floor('rotation functions', 1)
    # Q-4
    EPOCH = 'unodb::qsbr_epoch'
    for f, e in (cfg.callers_of(lambda s: s.startswith(PT + '::execute_previous_requests(')) if '4' in parts else []):
        res.count('rotation call sites')
        res.functions.add(f.sig)
        blk = [b for b, i, x in f.elements() if x is e]
        conds = control_conditions(f, blk[0]) if blk else []
        ok = False
        how = None
        for c, val, cb in conds:
            # (a) comparison of two epochs: != taken true, or == taken false
            if c.get('k') == 'call' and c.get('ck') == 'op' and c.get('op') in ('!=', '==') and (c.get('callee') or '').startswith(EPOCH + '::operator'):
                if (c['op'] == '!=') == val:
                    ok = True
                    how = 'epoch comparison at ' + fileline(c.get('loc'))
            # rewritten != is !(a == b): strip_test already folded the negation into val
            # (b) a bool local whose initialiser says "this thread is the last one in the previous epoch" (count == 1)
            if c.get('k') == 'ref' and val:
                ci = wsum.const_inits(f)
                if c['did'] in ci:
                    hit = []
                    f.walk(ci[c['did']], lambda x: hit.append(1) if (x.get('k') == 'binop' and x.get('op') == '==' and any((isinstance(f.strip_casts(s), dict) and f.strip_casts(s).get('k') == 'int' and f.strip_casts(s).get('v') == '1') for s in (x['l'], x['r']))) else None)
                    if hit:
                        ok = True
                        how = 'last thread leaving the previous epoch (`%s`)' % c.get('name')
        res.ob(ok, {'rule': 'Q-4', 'function': sh(f.name), 'site': fileline(e.get('loc')), 'guarded_by': how, 'verdict': 'discharged' if ok else 'VIOLATION'})
        if not ok:
            res.find(f, e.get('loc'), 'execute_previous_requests (which frees the previous-interval requests and ages the current ones) is called on a path that is not control-dependent on this thread having observed a new epoch: requests would be freed without the other threads having passed a quiescent state', key='Q-4:unguarded-rotation', config=cfg.name)
    if '4' in parts:
        res.floor('rotation call sites', 3)
    return res


# =====================================================================================================================
def q_barriers(cfg):
    """Q-5 barriers, once-per-advance orphan handling, memory orders; Q-10 the single-thread decision is taken on the old state"""
    res = RuleResult('Q-5', 'the release barrier precedes every announcement of quiescence / leaving; the acquire fence opens orphan handling; orphans are handled exactly once before every epoch-advancing write; state-word RMWs are acq_rel, loads acquire; the single-thread-mode decision is taken on a state in which the deciding thread is still counted')
    # (1) remove_thread_from_previous_epoch: barrier dominates the fetch_dec
    for f in fn(cfg, Q, 'remove_thread_from_previous_epoch'):
        res.count('announcement sites')
        dom = dominators(f)
        bars = calls(f, lambda e: e.get('name') == 'thread_epoch_change_barrier')
        rm = calls(f, lambda e: e.get('name') == 'atomic_fetch_dec_threads_in_previous_epoch' or (atomics.is_atomic_call(e) and e.get('name') in atomics.RMW_OPS))
        ok = bool(rm) and all(any(elem_dominates(f, dom, (bb, bi), (b, i)) for bb, bi, _ in bars) for b, i, _ in rm)
        res.ob(ok, {'rule': 'Q-5', 'function': sh(f.name), 'fact': 'release barrier dominates the decrement of threads-in-previous-epoch', 'verdict': 'discharged' if ok else 'VIOLATION'})
        if not ok:
            res.find(f, f.loc, 'the thread announces that it left the previous epoch (atomic decrement of the state word) without the release barrier before it on every path: its earlier accesses to shared nodes may be reordered after the announcement', key='Q-5:barrier-before-dec', config=cfg.name)
    for f in fn(cfg, Q, 'thread_epoch_change_barrier'):
        tb = [t for t in atomics.table(f) if t[1] == 'fence']
        ok = len(tb) >= 1 and all(t[3] and t[3][0] in atomics.REL for t in tb)
        res.count('fence sites')
        res.ob(ok, {'rule': 'Q-5', 'function': sh(f.name), 'fence': [[atomics.ORDER_NAMES.get(o) for o in t[3]] for t in tb], 'verdict': 'discharged' if ok else 'VIOLATION'})
        if not ok:
            res.find(f, f.loc, 'thread_epoch_change_barrier must be (at least) a release fence', key='Q-5:release-fence', config=cfg.name)
    for f in fn(cfg, Q, 'epoch_change_barrier_and_handle_orphans'):
        res.count('fence sites')
        dom = dominators(f)
        tb = [t for t in atomics.table(f) if t[1] == 'fence' and t[3] and t[3][0] in atomics.ACQ]
        takes = calls(f, lambda e: e.get('name') in ('take_orphan_list', 'free_orphan_list'))
        ok = bool(takes) and all(any(elem_dominates(f, dom, t[4], (b, i)) for t in tb) for b, i, _ in takes)
        res.ob(ok, {'rule': 'Q-5', 'function': sh(f.name), 'fact': 'acquire fence dominates taking / freeing the orphan lists', 'verdict': 'discharged' if ok else 'VIOLATION'})
        if not ok:
            res.find(f, f.loc, 'orphaned requests are taken / freed without an acquire fence before it on every path: the frees are not ordered after the other threads\' last accesses', key='Q-5:acquire-fence', config=cfg.name)
    # (2) change_epoch: orphan handling dominates the epoch CAS, once
    for f in fn(cfg, Q, 'change_epoch'):
        res.count('epoch advance sites')
        dom = dominators(f)
        hs = calls(f, lambda e: e.get('name') == 'epoch_change_barrier_and_handle_orphans')
        cas = [(b, i, e) for b, i, e in f.elements() if atomics.is_atomic_call(e) and (e.get('name') or '').startswith('compare_exchange')]
        ok = len(hs) == 1 and bool(cas) and all(elem_dominates(f, dom, (hs[0][0], hs[0][1]), (b, i)) for b, i, _ in cas)
        # and the handler is not inside the retry loop
        if ok:
            hb = hs[0][0]
            ok = hb not in reachable_from(f, hb)
        res.ob(ok, {'rule': 'Q-5', 'function': sh(f.name), 'fact': 'orphans handled exactly once, before the epoch-advancing CAS loop', 'verdict': 'discharged' if ok else 'VIOLATION'})
        if not ok:
            res.find(f, f.loc, 'change_epoch must run epoch_change_barrier_and_handle_orphans exactly once, before the CAS loop that advances the epoch', key='Q-5:change_epoch-orphans', config=cfg.name)
    # (3) unregister_thread: path-sensitive on the two flags
    for f in fn(cfg, Q, 'unregister_thread'):
        res.count('epoch advance sites')
        res.functions.add(f.sig)
        ci = wsum.const_inits(f)
        # which bool locals mean "leaves the previous epoch" / "advances the epoch": from the state helper call that consumes them
        adv_var = None
        rem_var = None
        for b, i, e in f.elements():
            if e.get('k') == 'call' and (e.get('callee') or '').startswith(QS + '::dec_thread_count_threads_in_previous_epoch_maybe_advance') and len(e.get('args', [])) == 2:
                r = f.ref_of(e['args'][1])
                if r:
                    adv_var = r[0]
        for b, blk in f.blocks.items():
            # the ternary choosing between the two new states branches on the remove flag
            if blk.get('term') == 'ConditionalOperator':
                did, neg = bool_var_test(f, blk)
                if did is not None and did != adv_var:
                    rem_var = did
        if adv_var is None or rem_var is None:
            res.incompl('Q-5: unregister_thread no longer has the recognised shape (state helper taking the advance flag, ternary on the leave-previous-epoch flag)')
            continue
        obs = {'cas': [], 'handle': []}

        def tr(pay, e, vals):
            barrier, handled, helpers = pay
            if e.get('k') == 'decl':
                for v in e['vars']:
                    if 'init' in v:
                        g = self_derived(f, v['init'])
                        if g:
                            helpers = frozenset({x for x in helpers if x[0] != v['did']} | {(v['did'], g[0])})
            if e.get('k') == 'call' and not is_assert_elem(e):
                if e.get('name') == 'thread_epoch_change_barrier':
                    barrier = True
                elif e.get('name') == 'epoch_change_barrier_and_handle_orphans':
                    obs['handle'].append((e.get('loc'), handled, dict(vals)))
                    handled = min(2, handled + 1)
                elif atomics.is_atomic_call(e) and (e.get('name') or '').startswith('compare_exchange') and atomics.field_path(f, e.get('obj')).endswith('.state'):
                    r = f.ref_of(e['args'][1]) if len(e.get('args', [])) > 1 else None
                    hs = [h for d, h in helpers if r and d == r[0]]
                    obs['cas'].append((e.get('loc'), barrier, handled, dict(vals), hs))
            return (barrier, handled, helpers)
        BoolFlow(f, tr, (False, 0, frozenset()), lambda a, b: (a[0] and b[0], max(a[1], b[1]), a[2] | b[2])).run()
        for loc, barrier, handled, vals, hs in obs['cas']:
            rem = vals.get(rem_var)
            adv = vals.get(adv_var)
            # only a CAS whose published value takes the thread out of the previous epoch (or advances the epoch) is an announcement
            if not any(('previous_epoch' in h or 'inc_epoch' in h) for h in hs):
                continue
            if rem is False:
                continue
            ok = barrier
            res.ob(ok, {'rule': 'Q-5', 'function': 'qsbr::unregister_thread', 'site': fileline(loc), 'path': 'thread leaves the previous epoch' if rem else 'flag unknown', 'barrier_before_cas': barrier, 'verdict': 'discharged' if ok else 'VIOLATION'})
            if not ok:
                res.find(f, loc, 'on a path on which the quitting thread leaves the previous epoch, the state CAS that announces it is not preceded by the release barrier', key='Q-5:unregister-barrier', config=cfg.name)
            if adv is not False:
                ok2 = handled >= 1
                res.ob(ok2, {'rule': 'Q-5', 'function': 'qsbr::unregister_thread', 'site': fileline(loc), 'path': 'this exit advances the epoch', 'orphans_handled_before_cas': handled, 'verdict': 'discharged' if ok2 else 'VIOLATION'})
                if not ok2:
                    res.find(f, loc, 'on a path on which the quitting thread advances the epoch, the orphaned requests are not aged/freed before the new epoch is published by the CAS: once the CAS succeeds other threads may start the next epoch change concurrently', key='Q-5:unregister-orphans-before-cas', config=cfg.name)
        for loc, handled, vals in obs['handle']:
            ok = handled == 0
            res.ob(ok, {'rule': 'Q-5', 'function': 'qsbr::unregister_thread', 'site': fileline(loc), 'fact': 'orphans handled at most once per call', 'already_handled_on_some_path': handled, 'verdict': 'discharged' if ok else 'VIOLATION'})
            if not ok:
                res.find(f, loc, 'epoch_change_barrier_and_handle_orphans can run a second time within one unregister_thread call (after a failed CAS): requests orphaned in the current interval, moved to the previous list by the first pass, are then freed one epoch early', key='Q-5:orphans-twice', config=cfg.name)
        if not obs['cas'] or not obs['handle']:
            res.incompl('Q-5: no state CAS / orphan handling found in unregister_thread')
    # (4) orders on the state word and the orphan lists
    n_state = n_orph = 0
    for f in cfg.functions:
        if not f.blocks or f.basefile not in ('qsbr.hpp', 'qsbr.cpp') or not (f.cls in (Q, PT, QS) or '(anonymous namespace)' in f.name):
            continue
        for (e, op, path, orders, pos) in atomics.table(f):
            if is_assert_elem(e):
                continue
            tgt = None
            if path.endswith('.state') or (f.cls == QS and op in atomics.RMW_OPS):
                tgt = 'state'
            elif 'orphan' in path or (op != 'fence' and '(anonymous namespace)' in f.name and 'dealloc_vector_list_node' in (e.get('cls') or e.get('callee') or '')):
                tgt = 'orphan'
            if tgt is None:
                continue
            if f.short == 'dump':
                continue
            if tgt == 'state':
                n_state += 1
            else:
                n_orph += 1
            if op == 'load':
                ok = bool(orders) and orders[0] in atomics.ACQ
                need = 'acquire'
            elif op in atomics.RMW_OPS:
                ok = bool(orders) and orders[0] in atomics.ACQREL
                need = 'acq_rel'
            elif op == 'store':
                ok = bool(orders) and orders[0] in atomics.REL
                need = 'release'
            else:
                continue
            res.ob(ok, {'rule': 'Q-5', 'function': sh(f.name), 'site': fileline(e.get('loc')), 'object': tgt, 'op': op, 'order': [atomics.ORDER_NAMES.get(o) for o in orders], 'verdict': 'discharged' if ok else 'VIOLATION'})
            if not ok:
                res.find(f, e.get('loc'), 'atomic %s on the QSBR %s has order %s; at least %s is required (quiescent-state announcements, epoch changes and orphan hand-over synchronise through these accesses)' % (op, 'state word' if tgt == 'state' else 'orphan list', '/'.join(atomics.ORDER_NAMES.get(o, '?') for o in orders) or '?', need), key='Q-5:order:%s:%s:%s' % (tgt, f.short, op), config=cfg.name)
    res.count('state-word atomic accesses', n_state)
    res.count('orphan-list atomic accesses', n_orph)
    res.floor('state-word atomic accesses', 6)
    res.floor('orphan-list atomic accesses', 4)
    # (5) Q-10 single_thread_mode(x): x is an observed (old) state, never a value produced by an inc_/dec_ helper
    n = 0
    for f in cfg.functions:
        if not f.blocks or f.basefile not in ('qsbr.hpp', 'qsbr.cpp') or f.cls == QS:
            continue
        ci = wsum.const_inits(f)
        for b, i, e in calls(f, lambda e: (e.get('callee') or '').startswith(QS + '::single_thread_mode')):
            n += 1
            bad = []

            def v(x, depth=[0]):
                if x.get('k') == 'call' and STATE_HELPER.match(x.get('callee') or ''):
                    bad.append(x.get('name'))
                if x.get('k') == 'ref' and x.get('vk') == 'local' and x['did'] in ci and depth[0] < 6:
                    depth[0] += 1
                    f.walk(ci[x['did']], v)
                    depth[0] -= 1
            f.walk(e['args'][0], v)
            ok = not bad
            res.ob(ok, {'rule': 'Q-10', 'function': sh(f.name), 'site': fileline(e.get('loc')), 'verdict': 'discharged' if ok else 'VIOLATION: argument derives from ' + ','.join(bad)})
            if not ok:
                res.find(f, e.get('loc'), 'single-thread mode is decided on a state word produced by `%s` - the state AFTER this thread\'s own update - instead of the observed old state: with two threads registered, the leaving thread would treat "one thread remains" as single-thread mode and free current-interval requests the remaining thread may still reference' % bad[0], key='Q-10:stm-on-new-state', config=cfg.name)
    # Q-10b: the mode handed to the epoch change is decided in the function that made the state-word update, from the state it
    # observed there - not handed in by a caller that looked at the state word earlier
    m10 = 0
    for f in cfg.functions:
        if not f.blocks or f.basefile not in ('qsbr.hpp', 'qsbr.cpp'):
            continue
        ci = wsum.const_inits(f)
        for b, i, e in calls(f, lambda e: e.get('name') in ('change_epoch', 'epoch_change_barrier_and_handle_orphans') and (e.get('cls') or '') == Q):
            args = e.get('args', [])
            mode = args[-1] if args else None
            if mode is None:
                continue
            m10 += 1
            x = f.strip_casts(mode)
            d = 0
            while isinstance(x, dict) and x.get('k') == 'ref' and x.get('vk') == 'local' and x['did'] in ci and d < 4:
                x = f.strip_casts(ci[x['did']])
                d += 1
            decided_here = isinstance(x, dict) and x.get('k') == 'call' and (x.get('callee') or '').startswith(QS + '::single_thread_mode')
            forwarded = isinstance(x, dict) and x.get('k') == 'ref' and x.get('vk') == 'param' and f.short == 'change_epoch'
            ok = decided_here or forwarded
            res.ob(ok, {'rule': 'Q-10b', 'function': sh(f.name), 'site': fileline(e.get('loc')), 'mode': 'single_thread_mode(observed state)' if decided_here else ('forwarded by change_epoch' if forwarded else 'other'), 'verdict': 'discharged' if ok else 'VIOLATION'})
            if not ok:
                res.find(f, e.get('loc'), '%s hands %s() a single-thread mode that was not decided here from the state word this function observed when it made its update (it comes from %s): the caller looked at the state word BEFORE the decrement - other threads may have resumed in between, and orphaned current-interval requests would be freed at once under a thread that still holds them' % (f.short, e.get('name'), 'a parameter' if isinstance(x, dict) and x.get('vk') == 'param' else 'elsewhere'), key='Q-10b:%s' % f.short, config=cfg.name)
    res.count('epoch-change mode hand-overs', m10)
    res.floor('epoch-change mode hand-overs', 3)
    res.count('single_thread_mode decisions', n)
    res.floor('single_thread_mode decisions', 3)
    res.floor('announcement sites', 1)
    res.floor('epoch advance sites', 2)
    return res


# =====================================================================================================================
def q_cas(cfg):
    """Q-6 CAS well-formedness on the state word and the orphan list heads; thread-count bookkeeping"""
    res = RuleResult('Q-6', 'every CAS on the state word publishes a value computed from its expected value by exactly one qsbr_state inc_/dec_ helper, recomputed after every failed attempt; register applies an increment and unregister a decrement of the thread count; a push onto an orphan list links the node to the expected head of that very CAS')
    for f in cfg.functions:
        if not f.blocks or f.basefile not in ('qsbr.hpp', 'qsbr.cpp'):
            continue
        cass = [(b, i, e) for b, i, e in f.elements() if atomics.is_atomic_call(e) and (e.get('name') or '').startswith('compare_exchange') and not is_assert_elem(e)]
        if not cass:
            continue
        res.functions.add(f.sig)
        obs = {}

        # must-facts: ('derived', desired_sig, expected_sig, helper) ; ('linked', node_sig + '.next', expected_sig)
        def transfer(st, blk):
            st = set(st)
            for e in blk['elems']:
                if is_assert_elem(e):
                    continue
                k = e.get('k')
                if k == 'decl':
                    for v in e['vars']:
                        me = 'v%d' % v['did']
                        st = {x for x in st if me not in (x[1], x[2])}
                        if 'init' in v:
                            gen = self_derived(f, v['init'])
                            if gen:
                                st.add(('derived', me, gen[1], gen[0]))
                elif k == 'binop' and e.get('op') == '=':
                    l = lval_sig(f, e['l'])
                    if l:
                        st = {x for x in st if l not in (x[1], x[2])}
                        r = lval_sig(f, e['r'])
                        if r:
                            st.add(('linked', l, r, None))
                        else:
                            x = f.strip_casts(e['r'])
                            if isinstance(x, dict) and x.get('k') == 'call' and atomics.is_atomic_call(x) and x.get('name') == 'load':
                                st.add(('linked', l, 'load:' + (lval_sig(f, x.get('obj')) or '?'), None))
                            gen = self_derived(f, e['r'])
                            if gen:
                                st.add(('derived', l, gen[1], gen[0]))
                elif k == 'call' and atomics.is_atomic_call(e) and (e.get('name') or '').startswith('compare_exchange'):
                    exp = lval_sig(f, e['args'][0])
                    des = lval_sig(f, e['args'][1])
                    obs.setdefault(e.get('loc'), []).append((frozenset(st), exp, des, e))
            return frozenset(st)

        def refine(st, blk, i):
            # the failure edge of a CAS rewrites `expected`: everything known about it dies
            e, neg = cond_of(f, blk)
            if isinstance(e, dict) and e.get('k') == 'call' and atomics.is_atomic_call(e) and (e.get('name') or '').startswith('compare_exchange'):
                val = (i == 0) != neg
                if not val:
                    exp = lval_sig(f, e['args'][0])
                    return frozenset(x for x in st if exp not in (x[2],) and not (x[0] == 'linked' and x[1] == exp and False))
            return st
        forward(f, frozenset(), transfer, refine, lambda a, b: a & b, key=lambda s: s)
        for loc, lst in sorted(obs.items(), key=str):
            for st, exp, des, e in lst:
                path = atomics.field_path(f, e.get('obj'))
                if path.endswith('.state'):
                    res.count('state-word CAS sites')
                    d = [x for x in st if x[0] == 'derived' and x[1] == des and x[2] == exp]
                    ok = bool(d)
                    res.ob(ok, {'rule': 'Q-6', 'function': sh(f.name), 'site': fileline(loc), 'desired_is': d[0][3] + '(expected)' if d else None, 'verdict': 'discharged' if ok else 'VIOLATION'})
                    if not ok:
                        res.find(f, loc, 'the value published by this CAS on the QSBR state word is not (on every path, in particular after a failed attempt refreshed the expected value) the result of one qsbr_state inc_/dec_ helper applied to that expected value: a concurrent update of the word would be overwritten (lost thread-count / epoch update)', key='Q-6:state-cas-desired', config=cfg.name)
                    # bookkeeping direction
                    if ok and f.cls == Q and f.short in ('register_thread', 'unregister_thread'):
                        want = 'inc_thread_count' if f.short == 'register_thread' else 'dec_thread_count'
                        okd = all(want in x[3] or (f.short == 'unregister_thread' and 'dec_thread_count' in x[3]) for x in d)
                        # the ternary-selected helper pair in unregister both decrement the count
                        res.ob(okd, {'rule': 'Q-6', 'function': sh(f.name), 'site': fileline(loc), 'helper': [x[3] for x in d], 'verdict': 'discharged' if okd else 'VIOLATION'})
                        if not okd:
                            res.find(f, loc, '%s publishes a state computed by `%s`: it must %s the registered-thread count by one' % (f.short, d[0][3], 'increase' if f.short == 'register_thread' else 'decrease'), key='Q-6:count-direction:' + f.short, config=cfg.name)
                elif 'orphan' in path or 'orphan' in (exp or '') or 'orphan' in f.short:
                    res.count('orphan-list CAS sites')
                    # push: desired = node N, expected must be N.next itself, or N.next must have been set from expected since expected last changed
                    if des is None or exp is None:
                        res.ob(True)
                        continue
                    if f.short == 'add_to_orphan_list' or exp.startswith(des):
                        ok = (exp == des + '.next') or (('linked', des + '.next', exp, None) in st)
                        res.ob(ok, {'rule': 'Q-6', 'function': sh(f.name), 'site': fileline(loc), 'expected': exp, 'desired': des, 'verdict': 'discharged' if ok else 'VIOLATION'})
                        if not ok:
                            res.find(f, loc, 'the node pushed by this CAS is not linked (node->next) to the list head the CAS expects on every path - after a failed attempt the expected head is refreshed but node->next keeps the stale head: nodes pushed in between are cut out of the list (their requests are never executed) or a list taken meanwhile is linked twice', key='Q-6:push-link', config=cfg.name)
                    else:
                        res.ob(True)
    res.floor('state-word CAS sites', 4)
    res.floor('orphan-list CAS sites', 2)
    # pause / resume flag after (un)registering
    for nm, callee, val in (('qsbr_pause', 'unregister_thread', True), ('qsbr_resume', 'register_thread', False)):
        for f in fn(cfg, PT, nm):
            res.count('pause/resume')
            dom = dominators(f)
            cs = calls(f, lambda e: e.get('name') == callee)
            sets = [(b, i, e) for b, i, e in f.elements() if e.get('k') == 'binop' and e.get('op') == '=' and lval_sig(f, e['l']) == 'this.paused' and isinstance(f.strip_casts(e['r']), dict) and f.strip_casts(e['r']).get('k') == 'bool' and bool(f.strip_casts(e['r']).get('v')) == val]
            # both happen on every path; their relative order only matters when the call can fail (that is EXC-1, C08)
            exit_doms = dom.get(f.exit, set())
            ok = len(cs) == 1 and cs[0][0] in exit_doms and any(b in exit_doms for b, i, _ in sets)
            res.ob(ok, {'rule': 'Q-6', 'function': sh(f.name), 'fact': 'paused := %s and %s, both on every path' % (val, callee), 'verdict': 'discharged' if ok else 'VIOLATION'})
            if not ok:
                res.find(f, f.loc, '%s must call qsbr::%s exactly once and set paused = %s, both on every path' % (nm, callee, str(val).lower()), key='Q-6:' + nm, config=cfg.name)
    res.floor('pause/resume', 2)
    return res


def self_derived(f, o):
    """(helper name, argument lvalue sig) if o is `helper(x)` or `c ? helperA(x, ..) : helperB(x)` with qsbr_state inc_/dec_ helpers on the same x"""
    e = f.strip_casts(o)
    if not isinstance(e, dict):
        return None
    if e.get('k') == 'call' and e.get('name') == '__builtin_expect':
        return self_derived(f, e['args'][0])
    if e.get('k') == 'call' and STATE_HELPER.match(e.get('callee') or '') and e.get('args'):
        a = lval_sig(f, e['args'][0])
        if a:
            return (e.get('name'), a)
        return None
    if e.get('k') == 'cond':
        a = self_derived(f, e['a'])
        b = self_derived(f, e['b'])
        if a and b and a[1] == b[1]:
            return (a[0] + '|' + b[0], a[1])
    return None


# =====================================================================================================================
def q_orphans(cfg, parts=('7', '8', '9')):
    """Q-7 linear hand-over of orphaned request lists; Q-8 witnesses; Q-9 leave the previous epoch at most once"""
    res = RuleResult('Q-7/8/9', 'every orphan list taken by the epoch changer reaches exactly one sink; a leaving thread always hands its lists to the orphan lists; requests cannot be copied; a thread leaves the previous epoch at most once per epoch')
    # ---- Q-7a epoch_change_barrier_and_handle_orphans
    for f in (fn(cfg, Q, 'epoch_change_barrier_and_handle_orphans') if '7' in parts else []):
        res.count('orphan hand-over functions')
        res.functions.add(f.sig)
        taken = {}
        for b, i, e in f.elements():
            if e.get('k') == 'decl':
                for v in e['vars']:
                    if 'init' in v:
                        x = f.strip_casts(v['init'])
                        if isinstance(x, dict) and x.get('k') == 'call' and x.get('name') == 'take_orphan_list':
                            taken[v['did']] = v['name']
        if len(taken) < 2:
            res.incompl('Q-7: fewer than two taken orphan lists found in epoch_change_barrier_and_handle_orphans')
            continue
        double = []

        def transfer(st, blk):
            st = dict(st)
            for e in blk['elems']:
                if is_assert_elem(e):
                    continue
                k = e.get('k')
                if k == 'call' and e.get('name') == 'free_orphan_list' and e.get('args'):
                    r = f.ref_of(e['args'][0])
                    if r and r[0] in taken:
                        if st.get(r[0]) not in (None, 'taken', 'cas?'):
                            double.append((e.get('loc'), taken[r[0]]))
                        st[r[0]] = 'freed'
                elif k == 'binop' and e.get('op') == '=' and (lval_sig(f, e['l']) or '').endswith('.next'):
                    r = f.ref_of(e['r'])
                    if r and r[0] in taken:
                        if st.get(r[0]) not in (None, 'taken', 'casfail'):
                            double.append((e.get('loc'), taken[r[0]]))
                        st[r[0]] = 'appended'
                elif k == 'call' and atomics.is_atomic_call(e) and (e.get('name') or '').startswith('compare_exchange') and len(e.get('args', [])) >= 2:
                    r = f.ref_of(e['args'][1])
                    if r and r[0] in taken:
                        st[r[0]] = 'cas?'
            return tuple(sorted(st.items()))

        def refine(st, blk, i):
            e, neg = cond_of(f, blk)
            if isinstance(e, dict) and e.get('k') == 'call' and atomics.is_atomic_call(e) and (e.get('name') or '').startswith('compare_exchange'):
                val = (i == 0) != neg
                r = f.ref_of(e['args'][1])
                if r and r[0] in taken:
                    d = dict(st)
                    d[r[0]] = 'published' if val else 'casfail'
                    return tuple(sorted(d.items()))
            return st
        S0 = frozenset([tuple(sorted((d, 'taken') for d in taken))])
        inst = forward(f, S0, lambda S, blk: frozenset(transfer(s, blk) for s in S), lambda S, blk, i: frozenset(refine(s, blk, i) for s in S), lambda a, b: a | b, key=lambda s: s)
        ex = inst.get(f.exit, frozenset())
        for did, name in taken.items():
            finals = {dict(s).get(did) for s in ex}
            ok = finals and finals <= {'freed', 'published', 'appended'}
            res.ob(ok, {'rule': 'Q-7', 'list': name, 'final_states': sorted(str(x) for x in finals), 'verdict': 'discharged' if ok else 'VIOLATION'})
            if not ok:
                res.find(f, f.loc, 'the orphan list `%s` taken by the epoch changer does not reach a sink (freed / published as the new previous list / appended to it) on every path (%s): its requests are never executed' % (name, ', '.join(sorted(str(x) for x in finals))), key='Q-7:lost:' + name, config=cfg.name)
        for loc, name in double:
            res.ob(False)
            res.find(f, loc, 'the orphan list `%s` reaches a second sink: its requests would be executed twice' % name, key='Q-7:double:' + name, config=cfg.name)
        # ---- Q-7d: the previous-interval orphan list is emptied BEFORE this function writes the current-interval list into it
        PREV = 'orphaned_previous_interval_dealloc_requests'
        dom7 = dominators(f)
        takes_prev = [(b, i, e) for b, i, e in f.elements() if e.get('k') == 'call' and e.get('name') == 'take_orphan_list' and e.get('args') and atomics.field_path(f, e['args'][0]).endswith('.' + PREV)]
        writes_prev = [(b, i, e) for b, i, e in f.elements() if atomics.is_atomic_call(e) and e.get('obj') is not None and atomics.field_path(f, e['obj']).endswith('.' + PREV)
                       and ((e.get('name') or '').startswith('compare_exchange') or e.get('name') in ('store', 'exchange'))]
        if len(takes_prev) != 1 or not writes_prev:
            res.incompl('Q-7d: expected one take of the previous-interval orphan list and at least one write into it in epoch_change_barrier_and_handle_orphans (found %d / %d)' % (len(takes_prev), len(writes_prev)))
        else:
            tb, ti, te = takes_prev[0]
            for wb, wi, we in writes_prev:
                res.count('orphan rotation order sites')
                ok = elem_dominates(f, dom7, (tb, ti), (wb, wi)) and (tb, ti) != (wb, wi) and not (tb in reachable_from(f, wb) and tb != wb)
                res.ob(ok, {'rule': 'Q-7d', 'take': fileline(te.get('loc')), 'write': fileline(we.get('loc')), 'fact': 'the take of the previous-interval orphan list comes before every write into it on every path', 'verdict': 'discharged' if ok else 'VIOLATION'})
                if not ok:
                    res.find(f, te.get('loc'), 'epoch_change_barrier_and_handle_orphans takes (and frees) the previous-interval orphan list at %s after the current-interval list may have been written into it at %s: requests orphaned in the interval that just ended are executed at this epoch change, one epoch early - a registered thread that was not yet quiescent since they were retired may still use the memory' % (fileline(te.get('loc')), fileline(we.get('loc'))), key='Q-7d:rotation-order', config=cfg.name)
    # ---- Q-7b add_to_orphan_list
    for f in (anon(cfg, 'add_to_orphan_list') if '7' in parts else []):
        res.count('orphan push functions')
        res.functions.add(f.sig)
        # (i) the only early return is on requests.empty(); (ii) requests are moved into the node; (iii) the function returns otherwise only on CAS success
        rets = [(b, i, e) for b, i, e in f.elements() if e.get('k') == 'return']
        ok_all = True
        why = ''
        moved = calls(f, lambda e: e.get('ck') == 'op' and e.get('op') == '=' and 'std::vector<' in (e.get('callee') or '') and (lval_sig(f, e['args'][0]) or '').endswith('.requests'))
        if len(moved) != 1:
            ok_all = False
            why = 'the request vector is not moved into the list node exactly once'
        for b, i, e in rets:
            conds = control_conditions(f, b)
            on_empty = any(c.get('k') == 'call' and c.get('name') == 'empty' and val for c, val, _ in conds)
            on_cas = any(c.get('k') == 'call' and (c.get('name') or '').startswith('compare_exchange') and val for c, val, _ in conds)
            if not (on_empty or on_cas):
                ok_all = False
                why = 'a return at %s is reached neither because the request list is empty nor because the publishing CAS succeeded' % fileline(e.get('loc'))
        res.ob(ok_all, {'rule': 'Q-7', 'function': sh(f.name)[:80], 'verdict': 'discharged' if ok_all else 'VIOLATION ' + why})
        if not ok_all:
            res.find(f, f.loc, 'add_to_orphan_list: ' + why, key='Q-7:add_to_orphan_list', config=cfg.name)
    # ---- Q-7c every exit of unregister_thread passes through orphan_pending_requests ; orphan_pending_requests hands over both lists
    for f in (fn(cfg, Q, 'unregister_thread') if '7' in parts else []):
        res.count('leaving-thread exits')
        sites = {}

        def transfer(st, blk):
            for e in blk['elems']:
                if e.get('k') == 'call' and e.get('name') == 'orphan_pending_requests' and not is_assert_elem(e):
                    st = True
                if e.get('k') == 'return':
                    sites[e.get('loc')] = sites.get(e.get('loc'), True) and st
            return st
        forward(f, False, transfer, None, lambda a, b: a and b, key=lambda s: s)
        for loc, ok in sorted(sites.items(), key=str):
            res.ob(ok, {'rule': 'Q-7', 'function': 'qsbr::unregister_thread', 'site': fileline(loc), 'fact': 'exit preceded by orphan_pending_requests on every path', 'verdict': 'discharged' if ok else 'VIOLATION'})
            if not ok:
                res.find(f, loc, 'a thread can leave QSBR (unregister_thread returns here) without handing its pending requests to the orphan lists: the requests stay in the private lists of a thread that no longer takes part in epoch changes and are never freed', key='Q-7:exit-without-orphaning', config=cfg.name)
        if not sites:
            res.incompl('Q-7: no return found in unregister_thread')
    for f in (fn(cfg, PT, 'orphan_pending_requests') if '7' in parts else []):
        res.count('leaving-thread exits')
        pairs = []
        for b, i, e in calls(f, lambda e: e.get('name') == 'add_to_orphan_list'):
            a = e.get('args', [])
            if len(a) == 3:
                pairs.append(((lval_sig(f, a[0]) or '').split('.')[-1], (lval_sig(f, a[1]) or '').split('.')[-1], (lval_sig(f, a[2]) or '').split('.')[-1]))
        want = {('orphaned_previous_interval_dealloc_requests', 'previous_interval_dealloc_requests', 'previous_interval_orphan_list_node'),
                ('orphaned_current_interval_dealloc_requests', 'current_interval_dealloc_requests', 'current_interval_orphan_list_node')}
        ok = set(pairs) == want and len(pairs) == 2
        res.ob(ok, {'rule': 'Q-7', 'function': sh(f.name), 'handed_over': pairs, 'verdict': 'discharged' if ok else 'VIOLATION'})
        if not ok:
            res.find(f, f.loc, 'orphan_pending_requests must hand the previous-interval list to the previous orphan list and the current-interval list to the current orphan list, once each (found %s): a crossed or missing hand-over frees requests an epoch early or never' % (pairs,), key='Q-7:orphan-pairs', config=cfg.name)
    if '7' in parts:
        res.floor('orphan hand-over functions', 1)
        res.floor('orphan push functions', 1)
        res.floor('leaving-thread exits', 2)
    # ---- Q-8 witnesses from the record tables
    for name, need in (((DREQ, ('copy_ctor', 'copy_assign')), (DR, ('copy_ctor', 'copy_assign', 'move_ctor', 'move_assign'))) if '8' in parts else ()):
        r = cfg.records.get(name)
        if r is None:
            res.incompl('Q-8: record %s not found' % name)
            continue
        res.count('witness records')
        ms = {m['kind']: m for m in r.get('methods', []) if m.get('kind') in need}
        ok = all(k in ms and ms[k].get('deleted') for k in need)
        res.ob(ok, {'rule': 'Q-8', 'record': name, 'deleted': sorted(k for k in ms if ms[k].get('deleted')), 'verdict': 'discharged' if ok else 'VIOLATION'})
        if not ok:
            res.find(name, r.get('loc'), '%s must not be copyable%s: a copied request would be executed twice' % (name.split('::')[-1], ' or movable' if len(need) > 2 else ''), key='Q-8:' + name.split('::')[-1], config=cfg.name)
    # ---- Q-9 quiescent(): leave the previous epoch only when not yet quiescent in this epoch, and remember it
    for f in (fn(cfg, PT, 'quiescent') if '9' in parts else []):
        res.count('quiescent-state functions')
        res.functions.add(f.sig)
        cs = calls(f, lambda e: e.get('name') == 'remove_thread_from_previous_epoch')
        CNT = 'this.quiescent_states_since_epoch_change'
        ok = len(cs) == 1
        why = 'remove_thread_from_previous_epoch is not called exactly once'
        if ok:
            b0 = cs[0][0]
            conds = control_conditions(f, b0)
            guarded = False
            for c, val, _ in conds:
                if c.get('k') == 'binop' and c.get('op') == '==' and val:
                    sides = [lval_sig(f, c['l']), lval_sig(f, c['r'])]
                    lits = [f.strip_casts(c['l']), f.strip_casts(c['r'])]
                    if CNT in sides and any(isinstance(x, dict) and x.get('k') == 'int' and x.get('v') == '0' for x in lits):
                        guarded = True
            if not guarded:
                ok = False
                why = 'the call that takes this thread out of the previous epoch is not guarded by `quiescent_states_since_epoch_change == 0`: a thread that passes two quiescent states in one epoch would be counted out twice, letting the epoch advance while another thread has not quiesced'
        if ok:
            # every path from the call to the exit increments the counter or goes through the branch that adopts the newer epoch (and rotates)
            okp = {'v': True}

            def transfer(st, blk):
                for e in blk['elems']:
                    if is_assert_elem(e):
                        continue
                    if e.get('k') == 'call' and e.get('name') == 'remove_thread_from_previous_epoch':
                        st = 'pending'
                    if e.get('k') == 'unop' and e.get('op') == '++' and lval_sig(f, e['sub']) == CNT and st == 'pending':
                        st = 'done'
                    if e.get('k') == 'call' and e.get('name') == 'execute_previous_requests' and st == 'pending':
                        st = 'done'
                    if e.get('k') == 'return' and st == 'pending':
                        okp['v'] = False
                return st
            inst = forward(f, 'none', transfer, None, lambda a, b: a if a == b else ('pending' if 'pending' in (a, b) else a), key=lambda s: s)
            if inst.get(f.exit) == 'pending':
                okp['v'] = False
            if not okp['v']:
                ok = False
                why = 'after leaving the previous epoch the thread does not record it (counter increment) nor adopt the new epoch on some path: its next quiescent state would leave the epoch again'
        # counter reset only under an epoch inequality
        for b, i, e in f.elements():
            if e.get('k') == 'binop' and e.get('op') == '=' and lval_sig(f, e['l']) == CNT and not is_assert_elem(e):
                conds = control_conditions(f, b)
                g = any(c.get('k') == 'call' and c.get('ck') == 'op' and c.get('op') in ('!=', '==') and 'qsbr_epoch::operator' in (c.get('callee') or '') and ((c['op'] == '!=') == val) for c, val, _ in conds)
                if not g:
                    ok = False
                    why = 'quiescent_states_since_epoch_change is reset on a path not control-dependent on having seen a new global epoch'
        res.ob(ok, {'rule': 'Q-9', 'function': sh(f.name), 'verdict': 'discharged' if ok else 'VIOLATION ' + why})
        if not ok:
            res.find(f, f.loc, why, key='Q-9:' + why[:40], config=cfg.name)
    if '9' in parts:
        res.floor('quiescent-state functions', 1)
    return res


def q_tagging(cfg):
    """Q-11: a request joins the current-interval list only in the epoch the thread has caught up with"""
    res = RuleResult('Q-11', 'a request is appended to a thread\'s current-interval list only on paths on which the thread\'s last_seen_epoch has just been compared EQUAL to the global epoch read in the same call (the unequal case goes through advance_last_seen_epoch with the fresh epoch and the new request): a request filed under a stale epoch ages one epoch change too few and is freed while a thread that was active when it was made may still hold the object')
    n = 0
    for f in cfg.functions:
        if not f.blocks or f.cls != PT:
            continue
        inits = {}
        for b, i, e in f.elements():
            if e.get('k') == 'decl':
                for v in e['vars']:
                    if 'init' in v:
                        inits[v['did']] = v['init']

        def fresh_epoch(o, depth=0):
            """is the operand the global epoch read from the QSBR state word in this function"""
            x = f.strip_casts(o)
            if not isinstance(x, dict) or depth > 6:
                return False
            if x.get('k') == 'call' and x.get('ck') == 'ctor' and x.get('copy') and x.get('args'):
                return fresh_epoch(x['args'][0], depth + 1)
            if x.get('k') == 'ref' and x.get('vk') == 'local' and x['did'] in inits:
                return fresh_epoch(inits[x['did']], depth + 1)
            if x.get('k') == 'call' and x.get('name') == 'get_epoch' and x.get('args'):
                a = f.strip_casts(x['args'][0])
                if isinstance(a, dict) and a.get('k') == 'ref' and a.get('did') in inits:
                    a = f.strip_casts(inits[a['did']])
                return isinstance(a, dict) and a.get('k') == 'call' and a.get('name') == 'get_state'
            return False

        def is_last_seen(o):
            x = f.strip_casts(o)
            while isinstance(x, dict) and x.get('k') == 'call' and x.get('ck') == 'ctor' and x.get('copy') and x.get('args'):
                x = f.strip_casts(x['args'][0])
            return isinstance(x, dict) and x.get('k') == 'member' and x.get('name') == 'last_seen_epoch' and isinstance(f.strip_casts(x['base']), dict) and f.strip_casts(x['base']).get('k') == 'this'
        for b, i, e in f.elements():
            if is_assert_elem(e) or e.get('k') != 'call' or e.get('name') not in ('emplace_back', 'push_back', 'insert') or e.get('obj') is None:
                continue
            o = f.strip_casts(e['obj'])
            if not (isinstance(o, dict) and o.get('k') == 'member' and o.get('name') == 'current_interval_dealloc_requests'):
                continue
            n += 1
            res.functions.add(f.sig)
            ok = False
            for c, val, cb in control_conditions(f, b):
                if isinstance(c, dict) and c.get('k') == 'call' and c.get('ck') == 'op' and c.get('op') in ('==', '!=') and len(c.get('args', [])) == 2:
                    eq = val if c['op'] == '==' else (not val)
                    a0, a1 = c['args']
                    if eq and ((is_last_seen(a0) and fresh_epoch(a1)) or (is_last_seen(a1) and fresh_epoch(a0))):
                        ok = True
            if not ok:
                # ... or the thread has just caught up: advance_last_seen_epoch(_, fresh epoch) dominates the append (the
                # callee sets last_seen_epoch to its argument on every path - Q-3 / Q-4 judge the callee)
                dom_ = dominators(f)
                for b2, i2, e2 in f.elements():
                    if e2.get('k') == 'call' and e2.get('name') == 'advance_last_seen_epoch' and len(e2.get('args', [])) >= 2 and fresh_epoch(e2['args'][1]) and not is_assert_elem(e2):
                        if (b2 == b and i2 < i) or (b2 != b and b2 in dom_.get(b, ())):
                            ok = True
            res.ob(ok, {'rule': 'Q-11', 'function': sh(f.name), 'site': fileline(e.get('loc')), 'fact': 'append to the current-interval list is control-dependent on last_seen_epoch == fresh global epoch', 'verdict': 'discharged' if ok else 'VIOLATION'})
            if not ok:
                res.find(f, e.get('loc'), 'a request is appended to current_interval_dealloc_requests on a path on which last_seen_epoch is not known to equal the global epoch just read: if the epoch has moved on, the request is filed (and later rotated) one epoch too old and is freed one epoch change early - while a thread that passed its quiescent state before the request was made may still reference the object', key='Q-11:stale-epoch-append', config=cfg.name)
    # the mirror image: a NEW request handed to advance_last_seen_epoch (which drops its argument when the thread has already
    # seen that epoch) is handed over only when last_seen_epoch is known to differ from the fresh epoch
    m = 0
    for f in cfg.functions:
        if not f.blocks or f.cls != PT:
            continue
        inits = {}
        for b, i, e in f.elements():
            if e.get('k') == 'decl':
                for v in e['vars']:
                    if 'init' in v:
                        inits[v['did']] = v['init']

        def is_last_seen2(o):
            x = f.strip_casts(o)
            while isinstance(x, dict) and x.get('k') == 'call' and x.get('ck') == 'ctor' and x.get('copy') and x.get('args'):
                x = f.strip_casts(x['args'][0])
            return isinstance(x, dict) and x.get('k') == 'member' and x.get('name') == 'last_seen_epoch' and isinstance(f.strip_casts(x['base']), dict) and f.strip_casts(x['base']).get('k') == 'this'
        for b, i, e in f.elements():
            if e.get('k') != 'call' or e.get('name') != 'advance_last_seen_epoch' or len(e.get('args', [])) != 3 or is_assert_elem(e):
                continue
            a2 = f.strip_casts(e['args'][2])
            # a defaulted (empty) vector argument carries nothing
            if isinstance(a2, dict) and a2.get('k') == 'call' and a2.get('ck') == 'ctor' and not a2.get('args'):
                continue
            if isinstance(a2, dict) and a2.get('k') == 'defaultarg':
                continue
            m += 1
            ok = False
            for c, val, cb in control_conditions(f, b):
                if isinstance(c, dict) and c.get('k') == 'call' and c.get('ck') == 'op' and c.get('op') in ('==', '!=') and len(c.get('args', [])) == 2:
                    ne = val if c['op'] == '!=' else (not val)
                    if ne and (is_last_seen2(c['args'][0]) or is_last_seen2(c['args'][1])):
                        ok = True
            res.ob(ok, {'rule': 'Q-11', 'function': sh(f.name), 'site': fileline(e.get('loc')), 'fact': 'a new request is handed to advance_last_seen_epoch only under last_seen_epoch != fresh epoch', 'verdict': 'discharged' if ok else 'VIOLATION'})
            if not ok:
                res.find(f, e.get('loc'), 'a new request is handed to advance_last_seen_epoch on a path on which last_seen_epoch is not known to differ from the epoch passed: advance_last_seen_epoch returns at once when the thread has already seen that epoch, and the request it was given by value is destroyed with it - the pointer is never queued, orphaned or freed', key='Q-11:request-dropped', config=cfg.name)
    res.count('new requests handed to advance_last_seen_epoch', m)
    res.count('appends to the current-interval list', n)
    res.floor('appends to the current-interval list', 1)
    res.count('filing sites of a new request', n + m)
    res.floor('filing sites of a new request', 2)
    return res


def q_last_out(cfg):
    """Q-12: the epoch advances only when the acting thread is the last one still in the previous epoch"""
    res = RuleResult('Q-12', 'the global epoch is advanced only by the LAST thread of the previous epoch: every call of change_epoch, and every epoch-advancing state update of a quitting thread, is taken only when the count of threads still in the previous epoch, as observed in the state word the update is applied to, is exactly 1 (comparison evaluated over the admitted counts n >= 1) - advancing with another thread still in the previous epoch frees requests that thread may reference')
    n_sites = 0

    def obs_of(f, o, inits, depth=0):
        """is the operand an observation of threads_in_previous_epoch (through const locals)"""
        x = f.strip_casts(o)
        if not isinstance(x, dict) or depth > 4:
            return False
        if x.get('k') == 'ref' and x.get('vk') == 'local' and x.get('did') in inits:
            return obs_of(f, inits[x['did']], inits, depth + 1)
        return x.get('k') == 'call' and x.get('name') == 'get_threads_in_previous_epoch'

    def admitted(op, c, val):
        return {n for n in range(1, 10) if ({'>': n > c, '<': n < c, '>=': n >= c, '<=': n <= c, '==': n == c, '!=': n != c}[op]) == val}

    def cmp_obs(f, e, inits):
        """(op, const) if e is `obs OP const` (either side)"""
        if not (isinstance(e, dict) and e.get('k') == 'binop' and e.get('op') in ('>', '<', '>=', '<=', '==', '!=')):
            return None
        l, r = f.strip_casts(e['l']), f.strip_casts(e['r'])
        flip = {'>': '<', '<': '>', '>=': '<=', '<=': '>=', '==': '==', '!=': '!='}
        if obs_of(f, e['l'], inits) and isinstance(r, dict) and r.get('k') == 'int':
            return e['op'], int(r['v'])
        if obs_of(f, e['r'], inits) and isinstance(l, dict) and l.get('k') == 'int':
            return flip[e['op']], int(l['v'])
        return None
    for f in cfg.functions:
        if not f.blocks or f.cls != Q:
            continue
        inits = {}
        for b, i, e in f.elements():
            if e.get('k') == 'decl':
                for v in e['vars']:
                    if 'init' in v:
                        inits[v['did']] = v['init']
        for b, i, e in f.elements():
            if e.get('k') != 'call' or is_assert_elem(e):
                continue
            nm = e.get('name')
            if nm == 'change_epoch' and f.short != 'change_epoch':
                n_sites += 1
                res.functions.add(f.sig)
                adm = set(range(1, 10))
                seen = False
                for c, val, cb in control_conditions(f, b):
                    co = cmp_obs(f, c, inits)
                    if co:
                        seen = True
                        adm &= admitted(co[0], co[1], bool(val))
                ok = seen and adm == {1}
                res.ob(ok, {'rule': 'Q-12', 'function': sh(f.name), 'site': fileline(e.get('loc')), 'admitted_counts': sorted(adm) if seen else 'no test of the count', 'verdict': 'discharged' if ok else 'VIOLATION'})
                if not ok:
                    res.find(f, e.get('loc'), 'change_epoch() is called when the observed number of threads still in the previous epoch may be %s: the epoch must only be advanced by the last such thread (count exactly 1), otherwise requests that a thread which has not yet passed its quiescent state may reference are rotated towards freeing' % (('any of ' + str(sorted(adm))) if seen else 'anything (no test of the count guards the call)'), key='Q-12:change_epoch', config=cfg.name)
            elif nm and 'maybe_advance' in nm and len(e.get('args', [])) == 2:
                n_sites += 1
                res.functions.add(f.sig)
                # the flag: a bool local whose initialiser is a conjunction containing `obs == 1`
                x = f.strip_casts(e['args'][1])
                d = 0
                while isinstance(x, dict) and x.get('k') == 'ref' and x.get('vk') == 'local' and x.get('did') in inits and d < 3:
                    x = f.strip_casts(inits[x['did']])
                    d += 1
                conj = []

                def flat(y):
                    y = f.strip_casts(y)
                    if isinstance(y, dict) and y.get('k') == 'binop' and y.get('op') == '&&':
                        flat(y['l'])
                        flat(y['r'])
                    else:
                        conj.append(y)
                flat(x)
                adm = set(range(1, 10))
                seen = False
                for y in conj:
                    co = cmp_obs(f, y, inits)
                    if co:
                        seen = True
                        adm &= admitted(co[0], co[1], True)
                ok = seen and adm == {1}
                res.ob(ok, {'rule': 'Q-12', 'function': sh(f.name), 'site': fileline(e.get('loc')), 'admitted_counts': sorted(adm) if seen else 'no test of the count', 'verdict': 'discharged' if ok else 'VIOLATION'})
                if not ok:
                    res.find(f, e.get('loc'), 'a quitting thread advances the epoch when the observed number of threads still in the previous epoch may be %s: only the last such thread (count exactly 1) may advance it' % (('any of ' + str(sorted(adm))) if seen else 'anything (the advance flag does not test the count)'), key='Q-12:maybe_advance', config=cfg.name)
    res.count('epoch-advancing sites', n_sites)
    res.floor('epoch-advancing sites', 2)
    return res


def q_tail_link(cfg):
    """Q-13: a link store never overwrites an existing link of a shared list"""
    res = RuleResult('Q-13', 'orphan lists lose no node: a store into the `next` link of a list node either links a private node that is being pushed (taken out of its unique_ptr in the same function), or writes the link of the TAIL - the store is entered directly from a test that has just found that node\'s next pointer null; writing the link of any other node cuts off everything behind it (those requests are never executed and their memory is never returned)')
    n = 0
    for f in cfg.functions:
        if not f.blocks or f.basefile not in ('qsbr.cpp', 'qsbr.hpp'):
            continue
        inits = {}
        for b, i, e in f.elements():
            if e.get('k') == 'decl':
                for v in e['vars']:
                    if 'init' in v:
                        inits[v['did']] = v['init']
        preds = f.preds()
        for b, i, e in f.elements():
            if e.get('k') != 'binop' or e.get('op') != '=' or is_assert_elem(e):
                continue
            l = f.strip_casts(e['l'])
            if not (isinstance(l, dict) and l.get('k') == 'member' and l.get('name') == 'next' and 'dealloc_vector_list_node' in str((f.strip_casts(l['base']) or {}).get('t'))):
                continue
            n += 1
            res.functions.add(f.sig)
            pr = f.ref_of(l['base'])
            private = False
            if pr and pr[0] in inits:
                x = f.strip_casts(inits[pr[0]])
                private = isinstance(x, dict) and x.get('k') == 'call' and x.get('name') == 'release'
            tail = False
            if not private and pr:
                # entered from a test of `P->next` against null with the polarity "is null"
                for p in preds.get(b, []):
                    blk = f.blocks[p]
                    if blk.get('cond') is None:
                        continue
                    ss = f.succs(p)
                    if len(ss) != 2:
                        continue
                    o, neg = f.strip_test(blk['cond'])
                    c = f.resolve(o)
                    cm = f.strip_casts(o)
                    if isinstance(cm, dict) and cm.get('k') == 'member' and cm.get('name') == 'next' and (f.ref_of(cm['base']) or (None,))[0] == pr[0]:
                        # `while (P->next)`: the pointer itself as the condition; null on the false side
                        succ_null = ss[1] if not neg else ss[0]
                        if succ_null == b:
                            reassigned = any(x.get('k') == 'binop' and x.get('op') == '=' and (f.ref_of(x['l']) or (None,))[0] == pr[0] for x in f.blocks[b]['elems'][:i])
                            tail = tail or not reassigned
                        continue
                    if not (isinstance(c, dict) and c.get('k') == 'binop' and c.get('op') in ('!=', '==')):
                        continue
                    cl, cr = f.strip_casts(c['l']), f.strip_casts(c['r'])
                    for a, z in ((cl, cr), (cr, cl)):
                        if isinstance(z, dict) and z.get('k') == 'nullptr' and isinstance(a, dict) and a.get('k') == 'member' and a.get('name') == 'next' and (f.ref_of(a['base']) or (None,))[0] == pr[0]:
                            isnull_when_true = (c['op'] == '==') != neg
                            succ_true, succ_false = ss[0], ss[1]
                            if (isnull_when_true and succ_true == b) or (not isnull_when_true and succ_false == b):
                                # no reassignment of P between the test and the store
                                reassigned = any(x.get('k') == 'binop' and x.get('op') == '=' and (f.ref_of(x['l']) or (None,))[0] == pr[0] for x in f.blocks[b]['elems'][:i])
                                tail = not reassigned
            ok = private or tail
            res.ob(ok, {'rule': 'Q-13', 'function': sh(f.name), 'site': fileline(e.get('loc')), 'verdict': ('private node being pushed' if private else 'tail link') if ok else 'VIOLATION'})
            if not ok:
                res.find(f, e.get('loc'), 'the `next` link of a list node that may already have successors is overwritten (the node is neither private to this thread nor known to be the tail): every node behind it drops out of the orphan list - its requests are never executed, the memory is never freed, yet the list looks consistent', key='Q-13:link-overwrite', config=cfg.name)
    res.count('link stores', n)
    res.floor('link stores', 2)
    return res


def q_register_epoch(cfg):
    """Q-14: a registering thread is only ever given an epoch in which it has been counted"""
    res = RuleResult('Q-14', 'register_thread: a thread that could only bump the thread count (an epoch change was in progress, so it was NOT added to the threads of the previous epoch) waits for the new epoch and returns that one - a return on that path is guarded by a test that a freshly read epoch differs from the epoch the update was made in; returning the old epoch would let the thread leave an epoch it was never counted in (the count of the previous epoch underflows into the thread count, a second epoch change starts concurrently)')
    n = 0
    for f in cfg.functions:
        if not f.blocks or f.cls != Q or f.short != 'register_thread':
            continue
        res.functions.add(f.sig)
        inits = {}
        for b, i, e in f.elements():
            if e.get('k') == 'decl':
                for v in e['vars']:
                    if 'init' in v:
                        inits[v['did']] = v['init']

        def helper_of(o):
            x = f.strip_casts(o)
            d = 0
            while isinstance(x, dict) and x.get('k') == 'ref' and x.get('vk') == 'local' and x.get('did') in inits and d < 3:
                x = f.strip_casts(inits[x['did']])
                d += 1
            return x.get('name') if isinstance(x, dict) and x.get('k') == 'call' else None

        def epoch_src(o):
            """'old' if the operand is the epoch of the state word the CAS expected, 'fresh' if read from get_state() afterwards"""
            x = f.strip_casts(o)
            d = 0
            while isinstance(x, dict) and d < 5:
                d += 1
                if x.get('k') == 'call' and x.get('ck') == 'ctor' and x.get('copy') and x.get('args'):
                    x = f.strip_casts(x['args'][0])
                    continue
                if x.get('k') == 'ref' and x.get('vk') == 'local' and x.get('did') in inits:
                    x = f.strip_casts(inits[x['did']])
                    continue
                break
            if isinstance(x, dict) and x.get('k') == 'call' and x.get('name') == 'get_epoch':
                return x
            return None
        for b, i, e in f.elements():
            if e.get('k') != 'return' or e.get('e') is None:
                continue
            conds = control_conditions(f, b)
            cas = [c for c, val, cb in conds if isinstance(c, dict) and c.get('k') == 'call' and (c.get('name') or '').startswith('compare_exchange') and val]
            if not cas:
                continue
            n += 1
            h = helper_of(cas[-1]['args'][1]) if len(cas[-1].get('args', [])) > 1 else None
            if h is None:
                res.incompl('Q-14: the value published by the CAS guarding %s is not a state helper result' % fileline(e.get('loc')))
                continue
            counted = 'threads_in_previous_epoch' in h
            ok = True
            why = ''
            if not counted:
                ret = epoch_src(e['e'])
                differs = False
                for c, val, cb in conds:
                    if isinstance(c, dict) and c.get('k') == 'call' and c.get('ck') == 'op' and c.get('op') in ('==', '!=') and len(c.get('args', [])) == 2:
                        ne = val if c['op'] == '!=' else (not val)
                        a0, a1 = epoch_src(c['args'][0]), epoch_src(c['args'][1])
                        if ne and a0 is not None and a1 is not None and (a0 is ret or a1 is ret) and a0 is not a1:
                            differs = True
                ok = ret is not None and differs
                why = 'the thread count alone was bumped (%s), yet the function returns without having seen the epoch change' % h
            res.ob(ok, {'rule': 'Q-14', 'site': fileline(e.get('loc')), 'published_by': h, 'verdict': 'discharged' if ok else 'VIOLATION'})
            if not ok:
                res.find(f, e.get('loc'), 'register_thread: %s: the new thread believes it is in an epoch in which it was not counted; its first quiescent state decrements a zero count of threads in the previous epoch (borrowing from the thread count) and starts a second, concurrent epoch change - reported thread counts are wrong and pending requests are not executed when they should be' % why, key='Q-14:register-epoch', config=cfg.name)
        # Q-14b: which update does a registering thread publish, by the observed (threads in previous epoch, thread count)?
        def cls_of(o, depth=0):
            x = f.strip_casts(o)
            while isinstance(x, dict) and x.get('k') == 'ref' and x.get('vk') == 'local' and x.get('did') in inits and depth < 4:
                x = f.strip_casts(inits[x['did']])
                depth += 1
            if isinstance(x, dict) and x.get('k') == 'call' and x.get('name') in ('get_threads_in_previous_epoch', 'get_thread_count'):
                return 'prev' if x['name'] == 'get_threads_in_previous_epoch' else 'count'
            if isinstance(x, dict) and x.get('k') == 'int':
                return int(x['v'])
            return None

        def ev(o, env):
            """three-valued: True / False / None"""
            x = f.strip_casts(o)
            if not isinstance(x, dict):
                return None
            if x.get('k') == 'call' and x.get('name') == '__builtin_expect':
                return ev(x['args'][0], env)
            if x.get('k') == 'unop' and x.get('op') == '!':
                v = ev(x['sub'], env)
                return None if v is None else (not v)
            if x.get('k') == 'binop' and x.get('op') in ('||', '&&'):
                a, b2 = ev(x['l'], env), ev(x['r'], env)
                if x['op'] == '||':
                    return True if (a is True or b2 is True) else (False if (a is False and b2 is False) else None)
                return False if (a is False or b2 is False) else (True if (a is True and b2 is True) else None)
            if x.get('k') == 'binop' and x.get('op') in ('>', '<', '>=', '<=', '==', '!='):
                l, r = cls_of(x['l']), cls_of(x['r'])
                op = x['op']
                if isinstance(l, int) and isinstance(r, str):
                    l, r = r, l
                    op = {'>': '<', '<': '>', '>=': '<=', '<=': '>=', '==': '==', '!=': '!='}[op]
                if isinstance(l, str) and isinstance(r, int):
                    # the class 'pos' stands for every value >= 1
                    if env[l] == 0:
                        return {'>': 0 > r, '<': 0 < r, '>=': 0 >= r, '<=': 0 <= r, '==': 0 == r, '!=': 0 != r}[op]
                    if r == 0:
                        return {'>': True, '<': False, '>=': True, '<=': False, '==': False, '!=': True}[op]
                    if r == 1 and op in ('>=', '<'):
                        return op == '>='
                return None
            return None
        UPD = ('inc_thread_count_and_threads_in_previous_epoch', 'inc_thread_count')
        for env, want in (({'prev': 'pos', 'count': 'pos'}, UPD[0]), ({'prev': 0, 'count': 0}, UPD[0]), ({'prev': 0, 'count': 'pos'}, UPD[1])):
            reached = set()
            unknown = []
            seen = set()
            work = [f.entry]
            while work:
                b = work.pop()
                if b in seen or b is None:
                    continue
                seen.add(b)
                hit = [e for e in f.blocks[b]['elems'] if e.get('k') == 'call' and e.get('name') in UPD]
                if hit:
                    reached.add(hit[0]['name'])
                    continue
                ss = f.succs(b)
                blk = f.blocks[b]
                if len(ss) == 2 and blk.get('cond') is not None:
                    v = ev(blk['cond'], env)
                    if v is None:
                        unknown.append(fileline(blk.get('termloc') or f.loc))
                        work.extend(ss)
                    else:
                        work.append(ss[0] if v else ss[1])
                else:
                    work.extend(ss)
            if len(reached) > 1 and unknown:
                res.incompl('Q-14b: the update chosen by register_thread for (threads in previous epoch %s, thread count %s) depends on a condition the case walk cannot evaluate (%s)' % (env['prev'], env['count'], unknown[0]))
                continue
            ok = reached == {want}
            res.ob(ok, {'rule': 'Q-14b', 'case': 'threads in previous epoch %s, thread count %s' % (env['prev'], env['count']), 'publishes': sorted(reached), 'required': want, 'verdict': 'discharged' if ok else 'VIOLATION'})
            n2 = 1
            if not ok:
                res.find(f, f.loc, 'register_thread: with %s threads in the previous epoch and thread count %s observed, the state update published is %s instead of %s - %s' % (
                    env['prev'], env['count'], sorted(reached) or 'none', want,
                    'a thread arriving while an epoch change is in progress (count of the previous epoch already 0) is counted into the old epoch: it keeps the old epoch, its first quiescent state starts a second, concurrent epoch change and requests are freed one epoch early' if want == UPD[1] else 'the thread is not counted in the epoch it is given, the count underflows when it passes its first quiescent state'), key='Q-14b:register-update', config=cfg.name)
    res.count('returns of register_thread', n)
    res.floor('returns of register_thread', 2)
    return res


def q_sink(cfg):
    """Q-15: the free sink frees; Q-16: resume re-initialises what the constructor initialises"""
    from ..engine import dominators
    res = RuleResult('Q-15/16', 'Q-15 the end of the pipeline really frees: qsbr::deallocate calls free_aligned on its pointer argument on every path, deallocation_request::deallocate hands its own pointer to qsbr::deallocate on every path - otherwise every deferred deallocation "runs" and the memory is never returned. Q-16 the two sites that (re)register a thread agree: qsbr_resume assigns every per-thread bookkeeping field the constructor initialises (last seen epochs from register_thread(), quiescent-state counter 0, paused false, fresh orphan-list nodes) with the same value - a resumed thread with a stale counter never leaves the previous epoch and the epoch can no longer advance')

    def sig(f, o, depth=0):
        e = f.strip_casts(o)
        if not isinstance(e, dict) or depth > 8:
            return '?'
        k = e.get('k')
        if k == 'this':
            return 'this'
        if k == 'int':
            return str(e.get('v'))
        if k == 'bool':
            return 'true' if e.get('v') else 'false'
        if k == 'member':
            return sig(f, e['base'], depth + 1) + '.' + e.get('name', '?')
        if k == 'ref':
            for i, p in enumerate(f.params):
                if p['did'] == e.get('did'):
                    return 'p%d' % i
            return e.get('name', '?')
        if k == 'call':
            if e.get('ck') == 'ctor' and (e.get('copy') or e.get('move')) and len(e.get('args', [])) == 1:
                return sig(f, e['args'][0], depth + 1)
            ob = sig(f, e['obj'], depth + 1) + '.' if e.get('obj') is not None else ''
            return '%s%s(%s)' % (ob, e.get('name'), ','.join(sig(f, a, depth + 1) for a in e.get('args', [])))
        if k == 'initlist':
            return '{%s}' % ','.join(sig(f, a, depth + 1) for a in e.get('args', []))
        return k or '?'
    # ---- Q-15
    for f in cfg.functions:
        if not f.blocks:
            continue
        if f.cls == Q and f.short == 'deallocate':
            want, arg = 'free_aligned', 'p0'
        elif f.cls == DREQ and f.short == 'deallocate':
            want, arg = 'deallocate', 'this.pointer'
        else:
            continue
        res.count('sink functions')
        res.functions.add(f.sig)
        dom = dominators(f)
        exit_doms = dom.get(f.exit, set())
        calls = [(b, i, e) for b, i, e in f.elements() if e.get('k') == 'call' and e.get('name') == want and not is_assert_elem(e) and (want != 'deallocate' or (e.get('callee') or '').startswith(Q + '::deallocate'))]
        ok = len(calls) == 1 and calls[0][0] in exit_doms and calls[0][2].get('args') and sig(f, calls[0][2]['args'][0]) == arg
        res.ob(ok, {'rule': 'Q-15', 'function': sh(f.name), 'site': fileline(f.loc), 'verdict': 'discharged' if ok else 'VIOLATION'})
        if not ok:
            res.find(f, f.loc, '%s does not call %s(%s) exactly once on every path: deferred deallocations are executed without the memory ever being returned (or with another pointer)' % (sh(f.name), want, arg), key='Q-15:%s' % ('qsbr' if f.cls == Q else 'request'), config=cfg.name)
        # Q-15b: the free is the LAST use of the pointer (the debug callback reads the block: it comes first)
        if ok and f.cls == Q:
            from ..engine import reachable_from
            cb, ci, ce = calls[0]
            after = reachable_from(f, cb, False)
            late = []
            for b, i, e in f.elements():
                if e is ce or is_assert_elem(e):
                    continue
                if not ((b == cb and i > ci) or (b != cb and b in after)):
                    continue
                if e.get('k') == 'call':
                    for a in e.get('args', []):
                        r = f.ref_of(a)
                        if r and f.params and r[0] == f.params[0]['did']:
                            late.append(e)
            res.count('sink functions')
            okb = not late
            res.ob(okb, {'rule': 'Q-15b', 'function': sh(f.name), 'fact': 'nothing receives the pointer after free_aligned', 'verdict': 'discharged' if okb else 'VIOLATION'})
            if not okb:
                res.find(f, late[0].get('loc'), 'qsbr::deallocate hands the pointer to `%s` after free_aligned(pointer): the block has already been returned to the allocator when it is read (in assertion-enabled builds the callback olc_node_header::check_on_dealloc reads the lock of the freed node) - use of reclaimed memory' % late[0].get('name'), key='Q-15b:use-after-free', config=cfg.name)
    # ---- Q-16b: noticing a new epoch in a quiescent state starts the per-epoch count afresh - in every configuration
    for f in cfg.functions:
        if not f.blocks or f.cls != PT or f.short != 'quiescent':
            continue
        res.count('registration sites')
        res.functions.add(f.sig)

        def assigns(e, name):
            if is_assert_elem(e):
                return None
            if e.get('k') == 'binop' and e.get('op') == '=':
                l = f.strip_casts(e['l'])
                if isinstance(l, dict) and l.get('k') == 'member' and l.get('name') == name:
                    return e['r']
            if e.get('k') == 'call' and e.get('ck') == 'op' and e.get('op') == '=' and len(e.get('args', [])) == 2:
                l = f.strip_casts(e['args'][0])
                if isinstance(l, dict) and l.get('k') == 'member' and l.get('name') == name:
                    return e['args'][1]
            return None
        ep = [(b, i) for b, i, e in f.elements() if assigns(e, 'last_seen_quiescent_state_epoch') is not None]
        okq = bool(ep)
        for b, i in ep:
            # the reset follows on the straight line from the epoch update (same block or single-successor chain)
            chain = [b]
            x = b
            while True:
                ss = [y for y in f.succs(x) if y is not None]
                if len(ss) != 1 or ss[0] in chain:
                    break
                x = ss[0]
                chain.append(x)
            found = False
            for b2 in chain:
                for i2, e2 in enumerate(f.blocks[b2]['elems']):
                    r_ = assigns(e2, 'quiescent_states_since_epoch_change')
                    if r_ is not None and isinstance(f.strip_casts(r_), dict) and str(f.strip_casts(r_).get('v')) == '0':
                        found = True
            if not found:
                # ... or the counter is known to BE 0 here: the site is control-dependent on `counter == 0` (this thread
                # changed the epoch itself, before counting the present quiescent state)
                for c, val, cb in control_conditions(f, b):
                    if isinstance(c, dict) and c.get('k') == 'binop' and c.get('op') in ('==', '!='):
                        sides = [f.strip_casts(c['l']), f.strip_casts(c['r'])]
                        if any(isinstance(x_, dict) and x_.get('k') == 'member' and x_.get('name') == 'quiescent_states_since_epoch_change' for x_ in sides) and any(isinstance(x_, dict) and x_.get('k') == 'int' and str(x_.get('v')) == '0' for x_ in sides) and ((c['op'] == '==') == bool(val)):
                            found = True
            if not found:
                okq = False
        res.ob(okq, {'rule': 'Q-16b', 'function': 'qsbr_per_thread::quiescent', 'fact': 'a newly observed epoch resets quiescent_states_since_epoch_change to 0', 'verdict': 'discharged' if okq else 'VIOLATION'})
        if not okq:
            res.find(f, f.loc, 'qsbr_per_thread::quiescent does not reset quiescent_states_since_epoch_change to 0 on the path on which it records a newly observed epoch (in this build configuration): the counter is the "have I already left the previous epoch?" flag, so a thread that has passed a quiescent state before never leaves the previous epoch again - the epoch stops advancing and no deferred deallocation is executed any more', key='Q-16b:quiescent-reset', config=cfg.name)
    # ---- Q-16c: a thread that ends while registered leaves QSBR: ~qsbr_per_thread calls qsbr_pause() on the not-paused path, in
    # every configuration (the call sits in the two arms of an #ifdef)
    for f in cfg.functions:
        if not f.blocks or f.cls != PT or not f.d.get('dtor'):
            continue
        res.count('registration sites')
        res.functions.add(f.sig)
        pauses = [(b, i, e) for b, i, e in f.elements() if e.get('k') == 'call' and e.get('name') == 'qsbr_pause' and not is_assert_elem(e)]
        okp = False
        for b, i, e in pauses:
            for c, val, cb in control_conditions(f, b):
                if isinstance(c, dict) and c.get('k') == 'call' and c.get('name') == 'is_qsbr_paused' and val is False:
                    okp = True
        res.ob(okp, {'rule': 'Q-16c', 'function': '~qsbr_per_thread', 'fact': 'calls qsbr_pause() when the thread is not paused', 'verdict': 'discharged' if okp else 'VIOLATION'})
        if not okp:
            res.find(f, f.loc, '~qsbr_per_thread does not call qsbr_pause() on the path on which the thread is still registered (in this build configuration): a thread that ends keeps its registration and drops its pending requests - the nodes it retired are never freed, and because the dead thread never quiesces the epoch can never advance again, so nothing any other thread retires is freed either', key='Q-16c:dtor-unregisters', config=cfg.name)
    # ---- Q-16
    ctor = [f for f in cfg.functions if f.blocks and f.cls == PT and f.d.get('ctor') and not f.params]
    resume = fn(cfg, PT, 'qsbr_resume')
    resume = (resume[0] if resume else None) if isinstance(resume, list) else resume
    EXEMPT = {'previous_interval_dealloc_requests': 'request list: asserted empty on resume', 'current_interval_dealloc_requests': 'request list: asserted empty on resume',
              'current_interval_total_dealloc_size': 'statistics accumulator of the (empty) current list', 'active_ptrs': 'debug registry: asserted empty on resume'}
    if len(ctor) == 1 and resume is not None and resume.blocks:
        c = ctor[0]
        res.count('registration sites', 2)
        res.functions.add(c.sig)
        res.functions.add(resume.sig)
        cinit = {e.get('field'): sig(c, e['e']) for b, i, e in c.elements() if e.get('k') == 'init' and e.get('field') and e.get('e') is not None}
        rasg = {}
        for b, i, e in resume.elements():
            if is_assert_elem(e):
                continue
            if e.get('k') == 'binop' and e.get('op') == '=':
                l = resume.strip_casts(e['l'])
                if isinstance(l, dict) and l.get('k') == 'member':
                    rasg[l.get('name')] = sig(resume, e['r'])
            elif e.get('k') == 'call' and e.get('ck') == 'op' and e.get('op') == '=' and len(e.get('args', [])) == 2:
                l = resume.strip_casts(e['args'][0])
                if isinstance(l, dict) and l.get('k') == 'member':
                    rasg[l.get('name')] = sig(resume, e['args'][1])
        for fld, s_ in sorted(cinit.items()):
            if fld in EXEMPT:
                continue
            got = rasg.get(fld)
            ok = got is not None and got.replace('instance().', '').replace('this.', '') == s_.replace('instance().', '').replace('this.', '')
            res.ob(ok, {'rule': 'Q-16', 'field': fld, 'constructor': s_, 'qsbr_resume': got, 'verdict': 'discharged' if ok else 'VIOLATION'})
            if not ok:
                res.find(resume, resume.loc, 'qsbr_resume %s `%s` (the constructor initialises it with %s): a resumed thread must start with the same bookkeeping as a new one - e.g. with a stale quiescent-state counter it never removes itself from the previous epoch, the epoch cannot advance and no deferred deallocation is executed any more' % ('does not re-initialise' if got is None else 'assigns %s to' % got, fld, s_), key='Q-16:%s' % fld, config=cfg.name)
    else:
        res.incompl('Q-16: constructor / qsbr_resume of qsbr_per_thread not found')
    res.floor('sink functions', 2)
    return res


def q_wrap(cfg):
    """Q-17: an event counter that doubles as a flag cannot wrap in reachable time"""
    res = RuleResult('Q-17', 'a per-thread counter that is incremented once per API event without bound and whose comparison with zero decides a state change (quiescent_states_since_epoch_change: "has this thread already left the previous epoch?") is at least 64 bits wide, and so is every parameter it is handed on through - a 32-bit counter wraps to 0 after 2^32 quiescent states within one epoch (minutes of a tight loop) and the thread leaves the previous epoch a second time, on behalf of a thread that has not quiesced: the epoch advances under a reader')
    n = 0
    PT = 'unodb::qsbr_per_thread'
    rec = cfg.records.get(PT)
    if rec is None:
        res.incompl('Q-17: record %s not found' % PT)
        return res
    fields = {fl['did']: fl for fl in rec.get('fields', []) if fl.get('w') and fl.get('w') > 1}
    inc, tested, handed = set(), {}, {}
    for f in cfg.functions:
        if not f.blocks or f.basefile not in ('qsbr.hpp', 'qsbr.cpp'):
            continue

        def fld(o):
            x = f.strip_casts(o)
            if isinstance(x, dict) and x.get('k') == 'member' and x.get('did') in fields:
                return x['did']
            return None
        for b, i, e in f.elements():
            if is_assert_elem(e):
                continue
            if e.get('k') == 'unop' and e.get('op') == '++' and fld(e.get('sub')) is not None:
                inc.add(fld(e['sub']))
            elif e.get('k') in ('binop', 'compound') and e.get('op') in ('+=',) and fld(e.get('l')) is not None:
                inc.add(fld(e['l']))
            elif e.get('k') == 'binop' and e.get('op') in ('==', '!=', '>', '<'):
                for a, z in ((e['l'], e['r']), (e['r'], e['l'])):
                    zz = f.strip_casts(z)
                    if fld(a) is not None and isinstance(zz, dict) and zz.get('k') == 'int' and zz.get('v') == '0':
                        tested.setdefault(fld(a), []).append(fileline(e.get('loc')))
            elif e.get('k') == 'call' and e.get('cid') is not None:
                for ai, a in enumerate(e.get('args', [])):
                    d = fld(a)
                    if d is None:
                        continue
                    tg = cfg.fn_of(f.tu, e['cid'])
                    if tg is None or not tg.blocks or ai >= len(tg.params):
                        continue
                    p = tg.params[ai]
                    # is the parameter compared with zero in the callee?
                    for b2, i2, e2 in tg.elements():
                        if e2.get('k') == 'binop' and e2.get('op') in ('==', '!=', '>', '<') and not is_assert_elem(e2):
                            for a2, z2 in ((e2['l'], e2['r']), (e2['r'], e2['l'])):
                                r2 = tg.ref_of(a2)
                                zz = tg.strip_casts(z2)
                                if r2 and r2[0] == p['did'] and isinstance(zz, dict) and zz.get('k') == 'int' and zz.get('v') == '0':
                                    handed.setdefault(d, []).append((tg, p, fileline(e2.get('loc'))))
    for d in sorted(inc):
        if d not in tested and d not in handed:
            continue
        fl = fields[d]
        n += 1
        ok = fl['w'] >= 64
        res.ob(ok, {'rule': 'Q-17', 'field': fl['name'], 'width': fl['w'], 'zero_tests': (tested.get(d, []) + [x[2] for x in handed.get(d, [])])[:4], 'verdict': 'discharged' if ok else 'VIOLATION'})
        if not ok:
            res.find('unodb::qsbr_per_thread', rec.get('loc'), 'qsbr_per_thread::%s is %d bits wide, is incremented once per quiescent state without bound and its comparison with zero (%s) decides whether the thread still has to leave the previous epoch: after 2^%d quiescent states within one epoch it wraps to 0 and the thread leaves the previous epoch a second time, taking the place of a thread that has not quiesced - the epoch advances and requests are freed under a live reader' % (fl['name'], fl['w'], (tested.get(d) or [x[2] for x in handed[d]])[0], fl['w']), key='Q-17:%s' % fl['name'], config=cfg.name)
        for tg, p, where in handed.get(d, []):
            pw = p.get('w')
            ok2 = pw is None or pw >= fl['w']
            n += 1
            res.ob(ok2, {'rule': 'Q-17', 'field': fl['name'], 'handed_to': sh(tg.sig)[:80], 'param_width': pw, 'verdict': 'discharged' if ok2 else 'VIOLATION'})
            if not ok2:
                res.find(tg, tg.loc, '%s receives qsbr_per_thread::%s (%d bits) in a %s-bit parameter and compares it with zero (%s): the truncated value is 0 for a thread that has passed a multiple of 2^%s quiescent states, which then leaves the previous epoch twice' % (tg.short, fl['name'], fl['w'], pw, where, pw), key='Q-17:%s:param' % fl['name'], config=cfg.name)
    res.count('counters doubling as flags', n)
    res.floor('counters doubling as flags', 2)
    return res


def q_list_rmw(cfg):
    """Q-19: the shared orphan-list heads change only by atomic read-modify-write"""
    from .. import atomics
    res = RuleResult('Q-19', 'the two global orphan-list heads are pushed onto concurrently by every pausing / exiting thread (CAS), so they are changed only by atomic read-modify-write operations - compare_exchange (push, publish) and exchange(nullptr) (take) - never by a plain store: a list emptied by "load, then store nullptr" overwrites a node pushed in between, whose requests are reachable from nowhere and never freed')
    n = 0
    LT = 'std::atomic<unodb::detail::dealloc_vector_list_node *>'
    for f in cfg.functions:
        if not f.blocks or f.basefile not in ('qsbr.hpp', 'qsbr.cpp'):
            continue
        for (e, op, path, orders, pos) in atomics.table(f):
            obj = e.get('obj')
            if e.get('ck') == 'op' and e.get('args'):
                obj = e['args'][0]
            x = f.strip_casts(obj) if obj is not None else None
            t = (x.get('t') or '') if isinstance(x, dict) else ''
            if LT not in t.replace('const ', ''):
                continue
            if is_assert_elem(e):
                continue
            n += 1
            res.functions.add(f.sig)
            ok = op in ('load', 'exchange', 'compare_exchange_weak', 'compare_exchange_strong')
            if op == 'exchange':
                a = f.strip_casts(e['args'][0]) if e.get('args') else None
                okx = isinstance(a, dict) and a.get('k') == 'nullptr' and orders and orders[0] in atomics.ACQ
                if not okx:
                    ok = False
            why_order = ''
            if op.startswith('compare_exchange'):
                # a successful push / publish makes the node's requests visible to whoever takes the list: release on success
                if not (orders and orders[0] in atomics.REL):
                    ok = False
                    why_order = ' (success order %s: the CAS that publishes a list node must be at least release, or the thread that takes the list may read the requests before they were written)' % atomics.ORDER_NAMES.get(orders[0] if orders else 5)
            res.ob(ok, {'rule': 'Q-19', 'function': sh(f.sig)[:90], 'op': op, 'site': fileline(e.get('loc')), 'verdict': 'discharged' if ok else 'VIOLATION'})
            if not ok:
                res.find(f, e.get('loc'), '%s changes an orphan-list head by `%s`: the head must only change by compare_exchange or by exchange(nullptr) with acquire semantics - a plain store (or a take that is not one atomic exchange) loses every node that a pausing / exiting thread pushes between the read and the write; its requests are never freed%s' % (f.short, op, why_order), key='Q-19:%s:%s' % (f.short, op), config=cfg.name)
    res.count('accesses to the orphan-list heads', n)
    res.floor('accesses to the orphan-list heads', 5)
    return res
