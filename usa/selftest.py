"""Self-test of the rules (thorough tier): every committed mutant that a property's rules are expected to catch must make
that property's check fail, every behaviour-preserving variant must leave it silent.

Each variant is a scratch copy of the repository's sources with one patch applied (never /repo itself); the check runs on it
in a subprocess with its own fact cache and evidence directory.  A mutant that no longer applies to the tree under analysis
is skipped with a note (the tree moved on), a mutant that applies and is missed, or an equivalent variant that raises an
alarm, makes the thorough run ANALYSIS-INCOMPLETE: the checker, not the code, is then what is broken.
"""
import concurrent.futures, glob, json, os, shutil, subprocess, sys, tempfile

VERIF = os.path.dirname(os.path.dirname(os.path.abspath(__file__)))
EXPECT = os.path.join(VERIF, 'selftest', 'expect.json')


def variant(repo, patch):
    d = tempfile.mkdtemp(prefix='usa-selftest.')
    for fn in os.listdir(repo):
        if fn.endswith(('.hpp', '.cpp')):
            shutil.copy(os.path.join(repo, fn), d)
    p = subprocess.run(['patch', '-p1', '-s', '--no-backup-if-mismatch', '-i', patch], cwd=d, stdout=subprocess.PIPE, stderr=subprocess.STDOUT, text=True)
    if p.returncode != 0:
        shutil.rmtree(d, ignore_errors=True)
        return None
    return d


def run_many(pids, repo, patch):
    """{pid: (exit code | None, first report line)} for one variant (one scratch copy, one fact cache)"""
    d = variant(repo, patch)
    if d is None:
        return {pid: (None, 'patch does not apply') for pid in pids}
    out = {}
    try:
        env = dict(os.environ)
        env.update({'USA_REPO': d, 'USA_CACHE': os.path.join(d, '.cache'), 'USA_EVIDENCE': os.path.join(d, 'evidence'), 'USA_NO_SELFTEST': '1', 'USA_JOBS': '4'})
        for pid in pids:
            p = subprocess.run([sys.executable, '-m', 'usa.check', pid, '--tier', 'quick', '--repo', d], cwd=VERIF, env=env, stdout=subprocess.PIPE, stderr=subprocess.STDOUT, text=True)
            first = [l for l in p.stdout.splitlines() if l.startswith(('  ', 'ANALYSIS-INCOMPLETE'))]
            rc = p.returncode
            if rc == 1 and 'VIOLATION property=' not in p.stdout:
                rc = 3          # the checker itself crashed (traceback): neither a verdict nor analysis-incomplete
                first = [l for l in p.stdout.splitlines() if 'Error' in l][-1:] or first
            out[pid] = (rc, (first[0].strip()[:200] if first else ''))
        return out
    finally:
        shutil.rmtree(d, ignore_errors=True)


def run_one(pid, repo, patch):
    rc, first = run_many([pid], repo, patch)[pid]
    return (patch, rc, first)


def load_expect():
    with open(EXPECT) as f:
        return json.load(f)


def run(pid, repo, jobs=8):
    """returns (summary dict, problems list)"""
    exp = load_expect()
    mutants = sorted(m for m, ps in exp.get('mutants', {}).items() if pid in ps)
    equivalents = sorted(e for e, ps in exp.get('equivalents', {}).items() if pid in ps)
    work = [(os.path.join(VERIF, 'selftest', 'mutants', m), 1) for m in mutants] + [(os.path.join(VERIF, 'selftest', 'equivalent', e), 0) for e in equivalents]
    # the confirmed seeded changes filed under this property (seeded/<pid>-*/patch.diff) must be reported by it too
    seeds = sorted(glob.glob(os.path.join(VERIF, 'seeded', pid + '-*', 'patch.diff')))
    work += [(sd, 1) for sd in seeds]
    problems = []
    summary = {'seeded_changes_expected': len(seeds), 'mutants_expected': len(mutants) + len(seeds), 'mutants_detected': 0, 'equivalents_expected_silent': len(equivalents), 'equivalents_silent': 0, 'skipped_not_applicable': [], 'detected': []}
    with concurrent.futures.ThreadPoolExecutor(max_workers=jobs) as ex:
        futs = {ex.submit(run_one, pid, repo, patch): (patch, want) for patch, want in work}
        for fu in concurrent.futures.as_completed(futs):
            patch, want = futs[fu]
            name = os.path.basename(patch)
            if name == 'patch.diff':
                name = 'seeded/' + os.path.basename(os.path.dirname(patch))
            _, rc, first = fu.result()
            if rc is None:
                summary['skipped_not_applicable'].append(name)
                continue
            if want == 1:
                if rc == 1:
                    summary['mutants_detected'] += 1
                    summary['detected'].append({'mutant': name, 'report': first})
                else:
                    problems.append('self-test: mutant %s applies but the %s check did not report a violation (exit %s)' % (name, pid, rc))
            else:
                if rc == 0:
                    summary['equivalents_silent'] += 1
                else:
                    problems.append('self-test: behaviour-preserving variant %s makes the %s check exit %s: %s' % (name, pid, rc, first))
    summary['detected'].sort(key=lambda x: x['mutant'])
    summary['detected'] = summary['detected'][:60]
    return summary, problems


def build_map(repo='/repo', jobs=12):
    """(re)generate selftest/expect.json: which property checks report which mutant; equivalents are expected silent everywhere"""
    from . import props
    pids = sorted(props.PROPERTIES)
    mutants = sorted(glob.glob(os.path.join(VERIF, 'selftest', 'mutants', '*.patch')))
    equivalents = sorted(glob.glob(os.path.join(VERIF, 'selftest', 'equivalent', '*.patch')))
    out = {'mutants': {}, 'equivalents': {}, '_comment': 'generated by `python3 -m usa.selftest map` on the pinned tree, then committed: mutant -> properties whose quick check must report it; equivalent -> properties that must stay silent (all that were run)'}
    with concurrent.futures.ThreadPoolExecutor(max_workers=jobs) as ex:
        futs = {ex.submit(run_many, pids, repo, m): m for m in mutants + equivalents}
        for fu in concurrent.futures.as_completed(futs):
            m = futs[fu]
            name = os.path.basename(m)
            for pid, (rc, first) in sorted(fu.result().items()):
                if m in mutants:
                    out['mutants'].setdefault(name, [])
                    if rc == 1:
                        out['mutants'][name].append(pid)
                    elif rc not in (0, 1):
                        print('NOTE', name, pid, 'exit', rc, first, flush=True)
                else:
                    out['equivalents'].setdefault(name, [])
                    if rc == 0:
                        out['equivalents'][name].append(pid)
                    else:
                        print('PROBLEM equivalent', name, pid, 'exit', rc, first, flush=True)
            print('done', name, out['mutants'].get(name, out['equivalents'].get(name)), flush=True)
    for k in out['mutants']:
        out['mutants'][k].sort()
    for k in out['equivalents']:
        out['equivalents'][k].sort()
    with open(EXPECT, 'w') as f:
        json.dump(out, f, indent=1, sort_keys=True)
        f.write('\n')
    missed = [k for k, v in out['mutants'].items() if not v]
    print('mutants', len(out['mutants']), 'undetected by every property:', missed)
    return out


if __name__ == '__main__':
    if len(sys.argv) > 1 and sys.argv[1] == 'map':
        build_map()
    elif len(sys.argv) > 2 and sys.argv[1] == 'run':
        s, pr = run(sys.argv[2], os.environ.get('USA_REPO', '/repo'))
        print(json.dumps(s, indent=1))
        for x in pr:
            print('PROBLEM', x)
