"""CFG algorithms over exported event-CFGs: forward dataflow, dominance, reachability."""
import collections


class NoConvergence(Exception):
    pass


def forward(fn, init, transfer, refine=None, join=None, key=None, limit=40000):
    """Generic worklist.  transfer(state, block)->state ; refine(state, block, succ_index)->state or None (edge infeasible).
    Returns {block id: in-state}."""
    inst = {fn.entry: init}
    work = collections.deque([fn.entry])
    n = 0
    while work:
        b = work.popleft()
        n += 1
        if n > limit:
            raise NoConvergence(fn.sig)
        out = transfer(inst[b], fn.blocks[b])
        if out is None:
            continue
        for i, s in enumerate(fn.succs(b)):
            if s is None:
                continue
            st = refine(out, fn.blocks[b], i) if refine else out
            if st is None:
                continue
            if s in inst:
                new = join(inst[s], st)
                if key(new) != key(inst[s]):
                    inst[s] = new
                    if s not in work:
                        work.append(s)
            else:
                inst[s] = st
                work.append(s)
    return inst


def reachable_from(fn, b, include_self=False):
    seen = set()
    work = [b]
    while work:
        x = work.pop()
        for y in fn.succs(x):
            if y is not None and y not in seen:
                seen.add(y)
                work.append(y)
    if include_self:
        seen.add(b)
    return seen


def dominators(fn):
    """{block: set of dominators} over reachable blocks (iterative)."""
    blocks = reachable_from(fn, fn.entry, True)
    preds = fn.preds()
    dom = {b: set(blocks) for b in blocks}
    dom[fn.entry] = {fn.entry}
    changed = True
    order = sorted(blocks, reverse=True)
    while changed:
        changed = False
        for b in order:
            if b == fn.entry:
                continue
            ps = [p for p in preds.get(b, []) if p in blocks]
            new = set(blocks)
            for p in ps:
                new &= dom[p]
            new = new | {b}
            if new != dom[b]:
                dom[b] = new
                changed = True
    return dom


def postdominators(fn):
    blocks = reachable_from(fn, fn.entry, True)
    exits = [fn.exit] if fn.exit in blocks else []
    # blocks without successors (noreturn) act as exits too
    for b in blocks:
        if all(s is None for s in fn.succs(b)) and b not in exits:
            exits.append(b)
    pd = {b: set(blocks) for b in blocks}
    for x in exits:
        pd[x] = {x}
    changed = True
    order = sorted(blocks)
    while changed:
        changed = False
        for b in order:
            if b in exits:
                continue
            ss = [s for s in fn.succs(b) if s is not None and s in blocks]
            new = set(blocks)
            for s in ss:
                new &= pd[s]
            new = new | {b}
            if new != pd[b]:
                pd[b] = new
                changed = True
    return pd


def elem_dominates(fn, dom, a, b):
    """does element position a=(block,index) dominate b=(block,index)?"""
    if a[0] == b[0]:
        return a[1] <= b[1]
    return a[0] in dom.get(b[0], ())


def positions(fn, pred):
    """[(block, index, elem)] of elements satisfying pred"""
    return [(b, i, e) for b, i, e in fn.elements() if pred(e)]


def control_conditions(fn, target_block):
    """Set of (block, succ_index) branch edges such that target is reachable only through... (approximation):
    returns the list of (cond block, index) edges E where target is reachable from the edge's successor but NOT from
    the other successors of the same block.  These are the branch outcomes the target is control dependent on
    (sufficient for structured code)."""
    out = []
    reach_cache = {}

    def reach(b):
        if b not in reach_cache:
            reach_cache[b] = reachable_from(fn, b, True)
        return reach_cache[b]
    for b, blk in fn.blocks.items():
        ss = fn.succs(b)
        if len([s for s in ss if s is not None]) < 2:
            continue
        yes = [i for i, s in enumerate(ss) if s is not None and target_block in reach(s)]
        no = [i for i, s in enumerate(ss) if s is not None and target_block not in reach(s)]
        if yes and no and target_block != b and b in dominators_cached(fn).get(target_block, ()):
            for i in yes:
                out.append((b, i))
    return out


_dom_cache = {}


def dominators_cached(fn):
    k = id(fn)
    if k not in _dom_cache:
        _dom_cache[k] = dominators(fn)
    return _dom_cache[k]
