"""Structural detection of pure forwarding functions (dispatchers / shims) and resolution of calls through them.

A forwarder is a function whose only non-trivial calls are `return callee(args...)` where every argument is one of its
own parameters (possibly through std::forward / std::move / a cast), `this`, `*this` or a cast of those; a `switch` on a
parameter selecting between several such returns is accepted.  Assertion statements are ignored.
"""

ASSERT_MACROS = ('UNODB_DETAIL_ASSERT', 'UNODB_DETAIL_ASSUME', 'UNODB_DETAIL_CANNOT_HAPPEN', 'assert', 'UNODB_DETAIL_DEBUG_CRASH', 'UNODB_DETAIL_CRASH')


def is_assert_elem(e):
    return e.get('macro') in ASSERT_MACROS


def _param_index(f, o):
    """operand -> ('p', index) | ('this',) | None"""
    depth = 0
    while depth < 20:
        depth += 1
        e = f.resolve(o)
        if not isinstance(e, dict):
            return None
        k = e.get('k')
        if k == 'this':
            return ('this',)
        if k == 'ref' and e.get('vk') == 'param':
            for i, p in enumerate(f.params):
                if p['did'] == e['did']:
                    return ('p', i)
            return None
        if k == 'cast':
            o = e['sub']
            continue
        if k == 'unop' and e.get('op') == '*':
            o = e['sub']
            continue
        if f.is_std_move(e):
            o = e['args'][0]
            continue
        if k == 'call' and e.get('ck') == 'ctor' and (e.get('copy') or e.get('move')) and e.get('args'):
            o = e['args'][0]
            continue
        return None
    return None


_cache = {}


def forward_targets(f):
    """None if f is not a forwarder, else list of (call element, objbind, [argbind...]) with binds in terms of f's params"""
    k = id(f)
    if k in _cache:
        return _cache[k]
    res = _forward_targets(f)
    _cache[k] = res
    return res


def _forward_targets(f):
    if not f.blocks:
        return None
    calls = []
    returned = set()
    for b, i, e in f.elements():
        if is_assert_elem(e):
            continue
        k = e.get('k')
        if k == 'return':
            x = f.strip_casts(e.get('e')) if e.get('e') is not None else None
            # elidable copy/move of the returned prvalue
            while isinstance(x, dict) and x.get('k') == 'call' and x.get('ck') == 'ctor' and (x.get('copy') or x.get('move')) and x.get('args'):
                x = f.strip_casts(x['args'][0])
            if isinstance(x, dict):
                returned.add(id(x))
        elif k == 'call':
            if f.is_std_move(e) or e.get('builtin'):
                continue
            if e.get('ck') == 'ctor' and (e.get('copy') or e.get('move')):
                continue
            calls.append(e)
        elif k in ('decl', 'binop', 'new', 'delete', 'throw'):
            if k == 'binop' and e.get('op') not in ('=', '+=', '-=', '|=', '&='):
                continue
            return None
        elif k == 'unop' and e.get('op') in ('++', '--'):
            return None
    if not calls:
        return None
    out = []
    for c in calls:
        if id(c) not in returned:
            return None
        ob = None
        if c.get('obj') is not None:
            ob = _param_index(f, c['obj'])
            if ob is None:
                return None
        args = c.get('args', [])
        if c.get('ck') == 'op' and c.get('method') and args:
            return None
        binds = []
        for a in args:
            pb = _param_index(f, a)
            if pb is None:
                return None
            binds.append(pb)
        out.append((c, ob, binds))
    return out


def resolve(f, call, depth=0):
    """Resolve a call element in f through forwarders.
    Returns list of (target Fn, objop, [argops]) where objop/argops are operands of the ORIGINAL caller f (or None)."""
    tgt = f.callee(call)
    obj = call.get('obj')
    args = list(call.get('args', []))
    return _resolve(tgt, obj, args, depth)


def _resolve(tgt, obj, args, depth):
    if tgt is None:
        return []
    ft = forward_targets(tgt) if depth < 4 else None
    if not ft:
        return [(tgt, obj, args)]
    out = []
    for c, ob, binds in ft:
        t2 = tgt.callee(c)
        if t2 is None:
            return [(tgt, obj, args)]

        def mapb(bd):
            if bd is None:
                return None
            if bd[0] == 'this':
                return obj
            return args[bd[1]] if bd[1] < len(args) else None
        out += _resolve(t2, mapb(ob), [mapb(x) for x in binds], depth + 1)
    return out
