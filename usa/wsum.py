"""Effect summaries over abstract access paths: which nodes a function writes (protected fields) or retires.

Roots:  ('this',) | ('p', i) parameter i | ('loaded', root, idxsig) a node loaded from a child slot of root
        | ('fresh',) | ('unk', why) | ('global', name)
Index signatures are canonical strings over 'v<did>' variable tokens and literals; at a call site the callee's
parameter tokens are substituted by the caller's argument signatures.
"""
import collections, re

ICS = 'unodb::in_critical_section<'
ALIAS_METHODS = {'get_key_prefix', 'ptr', 'get', 'data', 'begin', 'cbegin', 'end', 'cend', 'operator->', 'operator*', 'value', 'find_child', 'release', 'get_deleter'}
ALIAS_FREE = {'move', 'forward', 'obsolete', 'unwrap_fake_critical_section', 'addressof', '__addressof'}
OWNER_WRAPPERS = {'make_db_inode_reclaimable_ptr', 'make_db_inode_unique_ptr', 'reclaim_leaf_on_scope_exit'}
FRESH = {'create', 'make_db_leaf_ptr', 'make_db_inode_unique_ptr_fresh'}
RETIRE = {'make_db_inode_reclaimable_ptr', 'reclaim_leaf_on_scope_exit'}


def const_inits(f):
    """locals that are initialised once at their declaration: did -> init operand"""
    if hasattr(f, '_const_inits'):
        return f._const_inits
    m = {}
    assigned = set()
    for b, i, e in f.elements():
        if e.get('k') == 'decl':
            for v in e['vars']:
                if 'init' in v:
                    m[v['did']] = v['init']
                for bd in v.get('bindings', []):
                    pass
        elif e.get('k') == 'binop' and e.get('op') in ('=', '+=', '-=', '|=', '&=', '<<=', '>>='):
            r = f.ref_of(e['l'])
            if r:
                assigned.add(r[0])
        elif e.get('k') == 'unop' and e.get('op') in ('++', '--'):
            r = f.ref_of(e['sub'])
            if r:
                assigned.add(r[0])
    for d in assigned:
        m.pop(d, None)
    f._const_inits = m
    return m


def idxsig(f, o, depth=0, inline=True):
    """canonical signature of an (index) expression"""
    e = f.resolve(o)
    if not isinstance(e, dict) or depth > 25:
        return 'UNK'
    k = e.get('k')
    if k == 'int':
        return str(e.get('v'))
    if k == 'bool':
        return '1' if e.get('v') else '0'
    if k == 'cast':
        return idxsig(f, e['sub'], depth + 1, inline)
    if k == 'initlist' and len(e.get('args', [])) == 1:
        return idxsig(f, e['args'][0], depth + 1, inline)
    if k == 'ref':
        if 'cv' in e and e.get('vk') in ('enum', 'sfield', 'global'):
            return str(e['cv'])
        if inline and e.get('vk') == 'local':
            ci = const_inits(f)
            if e['did'] in ci:
                s = idxsig(f, ci[e['did']], depth + 1, inline)
                if 'UNK' not in s:
                    return s
        return 'v%d' % e['did']
    if k == 'binop':
        return '(%s%s%s)' % (idxsig(f, e['l'], depth + 1, inline), e.get('op'), idxsig(f, e['r'], depth + 1, inline))
    if k == 'unop':
        return '(%s%s)' % (e.get('op'), idxsig(f, e['sub'], depth + 1, inline))
    if k == 'cond':
        return '(%s?%s:%s)' % (idxsig(f, e['c'], depth + 1, inline), idxsig(f, e['a'], depth + 1, inline), idxsig(f, e['b'], depth + 1, inline))
    if k == 'member' and e.get('name') in ('first', 'second', 'child_index', 'key_byte'):
        return '%s(%s)' % (e['name'], idxsig(f, e['base'], depth + 1, inline))
    if k == 'call' and e.get('ck') == 'ctor' and (e.get('copy') or e.get('move')) and e.get('args'):
        return idxsig(f, e['args'][0], depth + 1, inline)
    return 'UNK'


def subst_sig(sig, mapping):
    if sig is None:
        return None
    return re.sub(r'v(\d+)', lambda m: mapping.get(int(m.group(1)), 'UNK'), sig)


def root_of(f, o, env, depth=0):
    """abstract access path of the object denoted by operand o"""
    while True:
        e = f.resolve(o)
        if not isinstance(e, dict) or depth > 40:
            return ('unk', 'depth')
        depth += 1
        k = e.get('k')
        if k == 'this':
            return ('this',)
        if k == 'ref':
            if e['did'] in env:
                return env[e['did']]
            if e.get('vk') == 'param':
                for i, p in enumerate(f.params):
                    if p['did'] == e['did']:
                        return ('p', i)
                return ('unk', 'param')
            if e.get('vk') in ('local', 'binding'):
                return ('local', e['did'], e['name'])
            return ('global', e.get('name'))
        if k == 'cast':
            o = e['sub']
            continue
        if k == 'initlist' and len(e.get('args', [])) == 1:
            o = e['args'][0]
            continue
        if k == 'member':
            o = e['base']
            continue
        if k == 'index':
            # array of slots: remember the index for a later load
            return root_of(f, e['base'], env, depth)
        if k == 'unop' and e['op'] in ('*', '&', '++', '--'):
            o = e['sub']
            continue
        if k == 'binop' and e['op'] in ('+', '-'):
            o = e['l']
            continue
        if k == 'call':
            nm = e.get('name')
            ck = e.get('ck')
            if ck in ('member', 'conv') and ((e.get('cls') or '').startswith(ICS) or (e.get('cls') or '').startswith('unodb::in_fake_critical_section<')) and (nm == 'load' or ck == 'conv'):
                return ('loaded', root_of(f, e['obj'], env, depth), slot_index_sig(f, e['obj']))
            if ck == 'op' and e.get('op') in ('[]', '*', '->', '++', '--', '+', '-'):
                o = e['args'][0]
                continue
            if ck == 'member' and nm == 'get_child':
                return ('loaded', root_of(f, e['obj'], env, depth), idxsig(f, e['args'][-1]) if e.get('args') else None)
            if ck == 'member' and nm == 'leave_last_child':
                return ('loaded', root_of(f, e['obj'], env, depth), None)
            if ck == 'member' and nm in ALIAS_METHODS:
                o = e['obj']
                continue
            if ck == 'free' and nm in ALIAS_FREE and e.get('args'):
                o = e['args'][0]
                continue
            if nm in OWNER_WRAPPERS and e.get('args'):
                o = e['args'][0]
                continue
            if nm in FRESH:
                return ('fresh',)
            if ck == 'ctor' and e.get('args') and (e.get('copy') or e.get('move')):
                o = e['args'][0]
                continue
            if ck == 'ctor' and 'basic_node_ptr' in (e.get('cls') or '') and e.get('args'):
                o = e['args'][0]
                continue
            if ck == 'ctor' and 'unique_ptr' in (e.get('cls') or '') and e.get('args'):
                o = e['args'][0]
                continue
            return ('unk', nm)
        if k == 'nullptr':
            return ('null',)
        return ('unk', k)


def slot_index_sig(f, o, depth=0):
    """index signature of a slot expression such as children[i] / children.pointer_array[i] (None if not an indexed slot)"""
    e = f.resolve(o)
    while isinstance(e, dict) and depth < 20:
        depth += 1
        k = e.get('k')
        if k == 'index':
            return idxsig(f, e['idx'])
        if k == 'call' and e.get('ck') == 'op' and e.get('op') == '[]' and len(e.get('args', [])) == 2:
            return idxsig(f, e['args'][1])
        if k in ('cast',):
            e = f.resolve(e['sub'])
            continue
        if k == 'unop' and e.get('op') in ('*', '&'):
            e = f.resolve(e['sub'])
            continue
        return None
    return None


def local_env(f):
    """flow-insensitive map local did -> root of its initialiser (first declaration wins)"""
    if hasattr(f, '_wsum_env'):
        return f._wsum_env
    env = {}
    for b, i, e in f.elements():
        if e.get('k') == 'decl':
            for v in e['vars']:
                if 'init' in v:
                    r = root_of(f, v['init'], env)
                    if r[0] not in ('unk', 'null'):
                        env.setdefault(v['did'], r)
                        for bd in v.get('bindings', []):
                            env.setdefault(bd['did'], r)
    f._wsum_env = env
    return env


def subst_root(root, objroot, argroots, argsigs, callee):
    """express a callee root in the caller's terms"""
    if root[0] == 'this':
        return objroot if objroot is not None else ('unk', 'noobj')
    if root[0] == 'p':
        i = root[1]
        return argroots[i] if i < len(argroots) and argroots[i] is not None else ('unk', 'arg')
    if root[0] == 'loaded':
        r = subst_root(root[1], objroot, argroots, argsigs, callee)
        mapping = {}
        for i, p in enumerate(callee.params):
            if i < len(argsigs) and argsigs[i] is not None:
                mapping[p['did']] = argsigs[i]
        return ('loaded', r, subst_sig(root[2], mapping))
    return root


def is_ics_store(e):
    if e.get('k') != 'call':
        return False
    cal = e.get('callee') or ''
    if not cal.startswith(ICS):
        return False
    return (e.get('ck') == 'op' and e.get('op') in ('=', '++', '--', '+=', '-=')) or e.get('name') == 'store'


class Summaries:
    """writes[sig] / retires[sig] = set of roots in the function's own terms"""

    def __init__(self, cfg, scope, store_pred=None, store_target=None):
        self.cfg = cfg
        if store_pred is None:
            store_pred = lambda f, e: is_ics_store(e)
            store_target = lambda f, e: (e['args'][0] if e.get('ck') == 'op' else e['obj'])
        self.writes = {}
        self.retires = {}
        self.calls = {}
        fns = [f for f in cfg.functions if f.blocks and scope(f)]
        self.fns = fns
        for f in fns:
            env = local_env(f)
            w = set()
            r = set()
            cs = []
            for b, i, e in f.elements():
                if e.get('k') != 'call' or is_assert_elem_macro(e):
                    continue
                if store_pred(f, e):
                    tgt = store_target(f, e)
                    w.add(norm_local(root_of(f, tgt, env)))
                    continue
                nm = e.get('name')
                if nm in RETIRE and e.get('args') and 'qsbr' in (f.callee_sig(e) or '') + (e.get('callee') or ''):
                    r.add(norm_local(root_of(f, e['args'][0], env)))
                elif nm in RETIRE and e.get('args'):
                    # policy-dispatched retire: decided by the deleter type of the result (see olcflow); record both
                    r.add(norm_local(root_of(f, e['args'][0], env)))
                cs.append(e)
            self.writes[f.sig] = w
            self.retires[f.sig] = r
            self.calls[f.sig] = cs
        changed = True
        it = 0
        while changed and it < 40:
            changed = False
            it += 1
            for f in fns:
                env = local_env(f)
                for e in self.calls[f.sig]:
                    tg = f.callee(e)
                    if tg is None or tg.sig not in self.writes or tg.d.get('ctor') and False:
                        continue
                    objroot, argroots, argsigs = call_roots(f, e, env)
                    for table in (self.writes, self.retires):
                        for root in list(table.get(tg.sig, ())):
                            if tg.d.get('ctor') and root[0] == 'this':
                                continue      # constructing a new object
                            m = norm_local(subst_root(root, objroot, argroots, argsigs, tg))
                            if m not in table[f.sig]:
                                table[f.sig].add(m)
                                changed = True


def is_assert_elem_macro(e):
    return e.get('macro') in ('UNODB_DETAIL_ASSERT', 'UNODB_DETAIL_ASSUME', 'UNODB_DETAIL_CANNOT_HAPPEN', 'assert')


def norm_local(root):
    """locals that are not derived from anything known are private objects of the function"""
    return root


def call_roots(f, e, env):
    objroot = root_of(f, e['obj'], env) if e.get('obj') is not None else None
    args = e.get('args', [])
    if e.get('ck') == 'op' and e.get('method') and args:
        objroot = root_of(f, args[0], env)
        args = args[1:]
    argroots = [root_of(f, a, env) for a in args]
    argsigs = [idxsig(f, a) for a in args]
    return objroot, argroots, argsigs
