"""Concrete-representative evaluation of small integer expression trees (used over finite quotient domains)."""


class Unsupported(Exception):
    pass


def wrap(v, w, sg):
    if w is None:
        return v
    m = 1 << w
    v %= m
    if sg and v >= (m >> 1):
        v -= m
    return v


def ev(f, o, env, depth=0):
    """env: did -> int, or ('member', name) -> int for this->name"""
    e = f.resolve(o)
    if not isinstance(e, dict) or depth > 40:
        raise Unsupported('depth')
    k = e.get('k')
    w, sg = e.get('w'), e.get('sg')
    if k == 'int':
        return int(e['v'])
    if k == 'bool':
        return 1 if e.get('v') else 0
    if k == 'ref':
        if e['did'] in env:
            return env[e['did']]
        if 'cv' in e:
            return int(e['cv'])
        raise Unsupported('variable ' + e.get('name', '?'))
    if k == 'member':
        if 'cv' in e:
            return int(e['cv'])      # static constexpr data member
        key = ('member', e.get('name'))
        b = f.resolve(e['base'])
        if isinstance(b, dict) and b.get('k') == 'this' and key in env:
            return env[key]
        if isinstance(b, dict) and b.get('k') == 'ref' and ('pmember', b['did'], e.get('name')) in env:
            return env[('pmember', b['did'], e.get('name'))]
        raise Unsupported('member ' + str(e.get('name')))
    if k == 'cast':
        return wrap(ev(f, e['sub'], env, depth + 1), w, sg)
    if k == 'initlist' and len(e.get('args', [])) == 1:
        return ev(f, e['args'][0], env, depth + 1)
    if k == 'unop':
        x = ev(f, e['sub'], env, depth + 1)
        op = e['op']
        if op == '-':
            return wrap(-x, w, sg)
        if op == '~':
            return wrap(~x, w, sg)
        if op == '!':
            return 0 if x else 1
        if op == '+':
            return x
        raise Unsupported('unop ' + op)
    if k == 'binop':
        op = e['op']
        if op == '&&':
            return 1 if (ev(f, e['l'], env, depth + 1) and ev(f, e['r'], env, depth + 1)) else 0
        if op == '||':
            return 1 if (ev(f, e['l'], env, depth + 1) or ev(f, e['r'], env, depth + 1)) else 0
        l = ev(f, e['l'], env, depth + 1)
        r = ev(f, e['r'], env, depth + 1)
        if op == '+':
            return wrap(l + r, w, sg)
        if op == '-':
            return wrap(l - r, w, sg)
        if op == '*':
            return wrap(l * r, w, sg)
        if op == '&':
            return wrap(l & r, w, sg)
        if op == '|':
            return wrap(l | r, w, sg)
        if op == '^':
            return wrap(l ^ r, w, sg)
        if op == '<<':
            return wrap(l << r, w, sg)
        if op == '>>':
            return wrap(l >> r, w, sg)
        if op == '==':
            return 1 if l == r else 0
        if op == '!=':
            return 1 if l != r else 0
        if op == '<':
            return 1 if l < r else 0
        if op == '<=':
            return 1 if l <= r else 0
        if op == '>':
            return 1 if l > r else 0
        if op == '>=':
            return 1 if l >= r else 0
        raise Unsupported('binop ' + op)
    if k == 'cond':
        return ev(f, e['a'], env, depth + 1) if ev(f, e['c'], env, depth + 1) else ev(f, e['b'], env, depth + 1)
    if k == 'call' and e.get('name') == '__builtin_expect':
        return ev(f, e['args'][0], env, depth + 1)
    raise Unsupported('node ' + str(k) + ' ' + str(e.get('name')))
