"""Abstract walk of a loop-free function over one class of a finite input partition.

Branch conditions are decided by a class oracle (truth value of an atomic predicate on every member of the class, or None if
the class does not determine it); local variables are tracked as expression trees with earlier values substituted, so the
returned value is an expression over the function's inputs only.  No solver, no concrete run of the program: one path per class.
"""


class Undecided(Exception):
    pass


class Unsupported(Exception):
    pass


def subst(f, o, env, depth=0):
    """inline copy of the expression tree with locals replaced by their current symbolic values"""
    e = f.resolve(o)
    if not isinstance(e, dict) or depth > 60:
        return e
    k = e.get('k')
    if k == 'ref' and e.get('vk') in ('local', 'param') and e['did'] in env:
        return env[e['did']]
    if k == 'cast' or (k == 'initlist' and len(e.get('args', [])) == 1):
        sub = subst(f, e['sub'] if k == 'cast' else e['args'][0], env, depth + 1)
        if k == 'cast' and isinstance(sub, dict):
            r = dict(e)
            r['sub'] = sub
            return r
        return sub
    r = {}
    for kk, v in e.items():
        if isinstance(v, dict):
            r[kk] = subst(f, v, env, depth + 1)
        elif isinstance(v, list):
            r[kk] = [subst(f, x, env, depth + 1) if isinstance(x, dict) else x for x in v]
        else:
            r[kk] = v
    return r


def strip_expect(t):
    """peel casts / __builtin_expect / parentheses-like wrappers from an inlined tree"""
    while isinstance(t, dict):
        if t.get('k') == 'cast':
            t = t['sub']
            continue
        if t.get('k') == 'call' and t.get('name') == '__builtin_expect':
            t = t['args'][0]
            continue
        if t.get('k') == 'call' and t.get('ck') == 'ctor' and (t.get('copy') or t.get('move')) and len(t.get('args', [])) == 1:
            t = t['args'][0]
            continue
        break
    return t


def walk(f, decide, max_steps=400):
    """Returns (returned expression tree with locals substituted, env, trace of (cond tree, value)).
    decide(tree) -> True/False/None evaluates a condition tree (already substituted)."""
    env = {}
    trace = []
    b = f.entry
    seen = set()
    steps = 0
    while True:
        steps += 1
        if b in seen or steps > max_steps:
            raise Unsupported('loop in control flow')
        seen.add(b)
        blk = f.blocks[b]
        for e in blk['elems']:
            k = e.get('k')
            if k == 'decl':
                for v in e['vars']:
                    if 'init' in v:
                        env[v['did']] = subst(f, v['init'], env)
                    else:
                        env.pop(v['did'], None)
            elif k == 'binop' and e.get('op') in ('=', '|=', '&=', '^=', '+=', '-=', '<<=', '>>='):
                l = f.strip_casts(e['l'])
                if isinstance(l, dict) and l.get('k') == 'ref' and l.get('vk') in ('local', 'param'):
                    rhs = subst(f, e['r'], env)
                    if e['op'] == '=':
                        env[l['did']] = rhs
                    else:
                        cur = env.get(l['did'], l)
                        env[l['did']] = {'k': 'binop', 'op': e['op'][:-1], 'l': cur, 'r': rhs, 't': l.get('t'), 'w': l.get('w'), 'sg': l.get('sg')}
            elif k == 'return':
                return (subst(f, e['e'], env) if e.get('e') is not None else None), env, trace
        ss = f.succs(b)
        live = [s for s in ss if s is not None]
        if not live:
            raise Unsupported('path ends without a return')
        if len(ss) == 2 and blk.get('cond') is not None:
            c = subst(f, blk['cond'], env)
            val = decide(c)
            if val is None:
                raise Undecided(c)
            trace.append((c, val))
            nb = ss[0] if val else ss[1]
            if nb is None:
                raise Unsupported('branch into an unreachable block')
            b = nb
        else:
            b = live[0]


def pick_cond(t, decide):
    """resolve ?: nodes inside a substituted tree with the oracle"""
    if not isinstance(t, dict):
        return t
    if t.get('k') == 'cond':
        v = decide(t['c'])
        if v is None:
            raise Undecided(t['c'])
        return pick_cond(t['a'] if v else t['b'], decide)
    r = {}
    for kk, v in t.items():
        if isinstance(v, dict):
            r[kk] = pick_cond(v, decide)
        elif isinstance(v, list):
            r[kk] = [pick_cond(x, decide) if isinstance(x, dict) else x for x in v]
        else:
            r[kk] = v
    return r
