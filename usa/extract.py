"""Configuration matrix and cached, parallel fact extraction.

Every verdict is computed from facts extracted from the *current* contents of the
repository directory (default /repo): the cache key is a hash over every file the
extraction can read (all *.hpp / *.cpp directly under the repo root), the analysis
TUs, the flags and the extractor binary, so an edited source file always leads to a
fresh extraction.
"""
import hashlib, json, os, subprocess, sys, time, concurrent.futures, glob, shutil

VERIF = os.path.dirname(os.path.dirname(os.path.abspath(__file__)))
TOOL = os.path.join(VERIF, 'tool', 'usa-extract')
CACHE = os.environ.get('USA_CACHE', os.path.join(VERIF, '.cache'))
RESOURCE_DIR = '/usr/lib/llvm-14/lib/clang/14.0.6'

AXES = [('avx2', 'sse41'), ('stats', 'nostats'), ('ndebug', 'debug'), ('spin1', 'spin2')]
BASELINE = 'avx2-stats-ndebug-spin1'


def all_configs():
    out = ['']
    for ax in AXES:
        out = [(p + '-' + a).strip('-') for p in out for a in ax]
    return out


def flip(cfg, axis_value):
    parts = cfg.split('-')
    for i, ax in enumerate(AXES):
        if axis_value in ax:
            parts[i] = axis_value
    return '-'.join(parts)


DEBUG = flip(BASELINE, 'debug')
TSAN = BASELINE + '-tsan'


def flags(cfg, repo):
    simd, stats, dbg, spin = cfg.split('-')[:4]
    f = ['-x', 'c++', '-std=c++20', '-mavx2' if simd == 'avx2' else '-msse4.1']
    if cfg.endswith('-tsan'):
        # the ThreadSanitizer build: __has_feature(thread_sanitizer) selects UNODB_DETAIL_THREAD_SANITIZER code (not part of all_configs();
        # requested by name for the one function that has a sanitizer-only body)
        f.append('-fsanitize=thread')
    if stats == 'stats':
        f.append('-DUNODB_DETAIL_WITH_STATS')
    if dbg == 'ndebug':
        f.append('-DNDEBUG')
    else:
        f.append('-UNDEBUG')
    f.append('-DUNODB_SPINLOCK_LOOP_VALUE=' + ('1' if spin == 'spin1' else '2'))
    f += ['-I' + repo, '-resource-dir', RESOURCE_DIR, '-Wno-everything']
    return f


# translation units: (short name, path relative to verif or repo)
def tus(repo):
    return [
        ('inst', os.path.join(VERIF, 'tu', 'inst_all.cpp')),
        ('enc', os.path.join(VERIF, 'tu', 'enc_use.cpp')),
        ('qsbr', os.path.join(repo, 'qsbr.cpp')),
        ('qsbr_ptr', os.path.join(repo, 'qsbr_ptr.cpp')),
        ('art_internal', os.path.join(repo, 'art_internal.cpp')),
        ('test_heap', os.path.join(repo, 'test_heap.cpp')),
    ]


def repo_files(repo):
    fs = sorted(glob.glob(os.path.join(repo, '*.hpp')) + glob.glob(os.path.join(repo, '*.cpp')))
    return fs


def tree_hash(repo):
    h = hashlib.sha256()
    for p in repo_files(repo):
        h.update(os.path.basename(p).encode())
        h.update(b'\0')
        with open(p, 'rb') as f:
            h.update(hashlib.sha256(f.read()).digest())
    for p in sorted(glob.glob(os.path.join(VERIF, 'tu', '*.cpp'))):
        with open(p, 'rb') as f:
            h.update(hashlib.sha256(f.read()).digest())
    with open(TOOL, 'rb') as f:
        h.update(hashlib.sha256(f.read()).digest())
    return h.hexdigest()[:24]


def _extract_one(args):
    tu_name, tu_path, cfg, repo, out = args
    if os.path.exists(out):
        return (tu_name, cfg, out, 0.0, '')
    t0 = time.time()
    tmp = out + '.tmp.%d' % os.getpid()
    cmd = [TOOL, '-root', repo, '-o', tmp, tu_path, '--'] + flags(cfg, repo)
    p = subprocess.run(cmd, stdout=subprocess.PIPE, stderr=subprocess.PIPE, text=True)
    if p.returncode != 0 or not os.path.exists(tmp) or os.path.getsize(tmp) == 0:
        if os.path.exists(tmp):
            os.unlink(tmp)
        return (tu_name, cfg, None, time.time() - t0, (p.stderr or '')[-4000:])
    os.replace(tmp, out)
    return (tu_name, cfg, out, time.time() - t0, '')


class ExtractionError(Exception):
    pass


def ensure(configs, repo='/repo', jobs=None):
    """Extract facts for the given configurations; returns {cfg: {tu: path}} and stats."""
    if not os.path.exists(TOOL):
        raise ExtractionError('extractor not built: run bin/setup (MANIFEST.setup_cmd)')
    repo = os.path.abspath(repo)
    th = tree_hash(repo)
    d = os.path.join(CACHE, th)
    os.makedirs(d, exist_ok=True)
    work = []
    for cfg in configs:
        for name, path in tus(repo):
            work.append((name, path, cfg, repo, os.path.join(d, '%s.%s.json' % (cfg, name))))
    res = {}
    errs = []
    cold = 0
    t0 = time.time()
    with concurrent.futures.ThreadPoolExecutor(max_workers=jobs or int(os.environ.get('USA_JOBS', '0') or 0) or min(16, os.cpu_count() or 4)) as ex:
        for name, cfg, out, dt, err in ex.map(_extract_one, work):
            if out is None:
                errs.append('%s/%s: %s' % (cfg, name, err.strip().splitlines()[-1] if err.strip() else 'no output'))
                sys.stderr.write(err)
            else:
                res.setdefault(cfg, {})[name] = out
                if dt > 0:
                    cold += 1
    if errs:
        raise ExtractionError('the analysis TU does not compile under clang: ' + '; '.join(errs[:3]))
    _gc(keep=th)
    return res, {'tree_hash': th, 'cold_extractions': cold, 'extract_wall_s': round(time.time() - t0, 2)}


def _gc(keep, max_dirs=6):
    try:
        ds = [os.path.join(CACHE, x) for x in os.listdir(CACHE) if os.path.isdir(os.path.join(CACHE, x))]
        ds.sort(key=lambda p: os.path.getmtime(p), reverse=True)
        for p in ds[max_dirs:]:
            if os.path.basename(p) != keep:
                shutil.rmtree(p, ignore_errors=True)
    except OSError:
        pass
